"""C01 contracts on the particle-Gibbs layer and its wiring:
run.setup_kernel / run.setup_samplers (L1), ParticleGibbsTreeSampler.sample_swarm / _sample_tree_from_swarm (L1, L8),
AbstractSMCSampler.sample (schedule, loop invariant)."""
import z3

from pyvc import alg, dsl
from pyvc.alg import Num
from pyvc.builtins_model import SymSeq
from pyvc.interp import Model, Obj, PathEnd, SBool, Unsupported
from contracts.models import RngModel
from contracts.c01_smc import OpaqueTree, TreeDist, base_registry

SETUP_KERNEL = "phyclone.run.setup_kernel"
SETUP_SAMPLERS = "phyclone.run.setup_samplers"
PG = "phyclone.mcmc.particle_gibbs.ParticleGibbsTreeSampler"
SAMPLE = "phyclone.smc.samplers.base.AbstractSMCSampler.sample"


# ----------------------------------------------------------------------------------------------------------- L1 wiring


def h_wiring(I, setup_kernel, setup_samplers):
    P = I.P
    op = alg.sym("outlier_prob")
    P.assume(z3.And(P.z(op) >= 0, P.z(op) <= 1))
    td = TreeDist()
    rng = RngModel()
    k = P.decide(4)
    proposal = ["bootstrap", "semi-adapted", "fully-adapted", "something-else"][k]
    dsl.cover(I, "proposal-" + proposal)
    kernel = I.call_function(setup_kernel, [op, proposal, rng, td], {}, force_inline=True)
    want_cls = {"bootstrap": "BootstrapKernel", "semi-adapted": "SemiAdaptedKernel", "fully-adapted": "FullyAdaptedKernel",
                "something-else": "SemiAdaptedKernel"}[proposal]
    P.check("L1.kernel-class[%s]" % proposal, isinstance(kernel, Obj) and kernel.cls.name == want_cls, "proposal option selects the kernel class", kind="post")
    pd = I.getattr(kernel, "perm_dist")
    P.check("L1.kernel-has-permutation-distribution[%s]" % proposal, isinstance(pd, Obj) and pd.cls.name == "RootPermutationDistribution",
            "the kernel the run command builds carries RootPermutationDistribution (the sampler draws the order from it)", kind="post")
    P.check("L1.kernel-tree-dist[%s]" % proposal, I.getattr(kernel, "tree_dist") is td and I.getattr(kernel, "rng") is rng,
            "kernel uses the chain's joint distribution object and generator", kind="post")
    o = I.to_num(I.getattr(kernel, "outlier_proposal_prob"))
    on = not P.feasible(P.z(op) <= 0)
    off = not P.feasible(P.z(op) > 0)
    P.check("L1.outlier-proposal-prob[%s]" % proposal, (on and (o - Num.const(0.1)).is_zero()) or (off and o.is_zero()),
            "outlier proposals are on exactly when outlier modelling is on", kind="post")
    N = alg.sym("N", "Int")
    thr = alg.sym("thr")
    sh = I.call_function(setup_samplers, [kernel, N, op, thr, rng, td], {}, force_inline=True)
    for nm in ("tree_sampler", "subtree_sampler", "burnin_sampler"):
        s = I.getattr(sh, nm)
        P.check("L1.%s-wiring[%s]" % (nm, proposal), I.getattr(s, "kernel") is kernel and I.getattr(s, "num_particles") is N and I.getattr(s, "resample_threshold") is thr
                and I.getattr(s, "_rng") is rng, "sampler holds the same kernel, particle count, threshold and generator", kind="post")
    dps = I.getattr(sh, "dp_sampler")
    v = I.getattr(dps, "outliers")
    vz = v.e if isinstance(v, SBool) else z3.BoolVal(bool(v))
    structural = I.getattr(dps, "tree_dist") is td and I.getattr(dps, "_rng") is rng
    P.check("L1.dp-sampler-wiring[%s]" % proposal, z3.And(z3.BoolVal(structural), vz == (P.z(op) > 0)),
            "data-point sampler shares the joint distribution; outlier option on exactly when outlier modelling is on", kind="post")
    prg = I.getattr(sh, "prg_sampler")
    P.check("L1.prg-sampler-wiring[%s]" % proposal, I.getattr(prg, "tree_dist") is td and I.getattr(prg, "_rng") is rng, "prune-regraft sampler shares the joint distribution", kind="post")
    cs = I.getattr(sh, "conc_sampler")
    P.check("L1.conc-sampler-wiring[%s]" % proposal, I.getattr(cs, "_rng") is rng, "concentration sampler uses the chain's generator", kind="post")


WIRING_COVERS = ["proposal-bootstrap", "proposal-semi-adapted", "proposal-fully-adapted", "proposal-something-else"]


# ----------------------------------------------------------------------------------------------------------- sample_swarm / selection


class SamplerRecorder(Model):
    py_classes = ("ConditionalSMCSampler",)

    def __init__(self, log, args, kwargs):
        self.log = log
        self.args = args
        self.kwargs = kwargs
        log.append(("construct", args, kwargs))

    def m_sample(self, I):
        self.log.append(("sample",))
        return ("swarm-of", self)


def pg_registry(log):
    r = base_registry()

    def rpd_sample(I, args, kwargs, node):
        tree, rng = args[0], args[1]
        log.append(("sigma-drawn", tree, rng))
        return ("sigma-of", tree)

    r.call_contracts["phyclone.smc.utils.RootPermutationDistribution.sample"] = rpd_sample
    r.class_models["ConditionalSMCSampler"] = lambda I, *a, **k: SamplerRecorder(log, a, k)
    r.assumed += ["RootPermutationDistribution.sample draws a uniformly distributed compatible order (C09)",
                  "ConditionalSMCSampler(...).sample() is the conditional SMC pass (its own contracts: L2, L5-L7)"]
    return r


def h_sample_swarm(I, fi):
    P = I.P
    log = I.registry.log
    del log[:]
    s = Obj(fi.cls)
    kern, rng = object(), RngModel()
    N, thr = alg.sym("N", "Int"), alg.sym("thr")
    s.fields.update({"kernel": kern, "_rng": rng, "num_particles": N, "resample_threshold": thr})
    tree = OpaqueTree("x")
    out = I.call_function(fi, [s, tree], {}, force_inline=True)
    P.check("L1.order-from-permutation-distribution", len(log) >= 1 and log[0][0] == "sigma-drawn" and log[0][1] is tree and log[0][2] is rng,
            "the data order is drawn by RootPermutationDistribution.sample(current tree, the sampler's generator)", kind="post")
    ok = len(log) == 3 and log[1][0] == "construct" and log[2][0] == "sample"
    P.check("L1.csmc-run-once", ok, "exactly one conditional SMC sampler is built and run", kind="post")
    if ok:
        a, k = log[1][1], log[1][2]
        P.check("L1.csmc-arguments", a[0] is tree and a[1] == ("sigma-of", tree) and a[2] is kern and k.get("num_particles") is N and k.get("resample_threshold") is thr,
                "conditional SMC conditions on the current tree, uses the drawn order, the sampler's kernel, N and threshold", kind="post")
        P.check("L1.returns-swarm", out == ("swarm-of", [x for x in [None]][0]) or (isinstance(out, tuple) and out[0] == "swarm-of"), "the swarm of that pass is returned", kind="post")
    dsl.cover(I, "sample_swarm")


class SwarmModel(Model):
    py_classes = ("ParticleSwarm",)

    def __init__(self, I, N):
        self.N = N
        b = alg.bound_index()
        I.P.assume(I.P.z(alg.bigsum("", N, alg.raw_app("w", b))) == 1, "ParticleSwarm.weights are normalised (swarm contract)")

    def a_weights(self, I):
        def facts(I_, i):
            return [I_.P.z(alg.raw_app("w", i)) >= 0]

        return SymSeq("weights", self.N, lambda i: alg.raw_app("w", i), facts)

    def a_particles(self, I):
        return SymSeq("particles", self.N, lambda i: ParticleAt(i))


class ParticleAt(Model):
    py_classes = ("Particle",)

    def __init__(self, i):
        self.i = i

    def a_tree(self, I):
        return ("tree-of-particle", self.i)


def h_select(I, fi):
    P = I.P
    s = Obj(fi.cls)
    rng = RngModel()
    s.fields.update({"_rng": rng})
    N = alg.sym("N", "Int")
    P.assume(P.z(N) >= 1)
    sw = SwarmModel(I, N)
    out = I.call_function(fi, [s, sw], {}, force_inline=True)
    lr = rng.total_log_rho(I)
    P.check("L8.returns-selected-particle-tree", isinstance(out, tuple) and out[0] == "tree-of-particle", "returns the tree of the selected particle", kind="post")
    idx = out[1]
    P.check("L8.selection-probability", P.z(lr) == P.z(alg.slog(alg.raw_app("w", idx))), "particle i is selected with probability weights[i]", kind="post")
    dsl.cover(I, "selected")


# ----------------------------------------------------------------------------------------------------------- sample() schedule


class ScheduleModel:
    pass


def sample_registry(trace):
    r = base_registry()
    base = "phyclone.smc.samplers.base.AbstractSMCSampler."

    def init(I, args, kwargs, node):
        s = args[0]
        trace.append(("init", s.fields["iteration"]))
        s.fields["iteration"] = I.binop(__import__("ast").Add(), s.fields["iteration"], s.fields["_init_consumes"])
        s.fields["swarm"] = ("gen", s.fields["iteration"])

    def resample(I, args, kwargs, node):
        s = args[0]
        trace.append(("resample", s.fields["iteration"]))
        if s.fields["_init_consumes"] == 1:
            # precondition of ConditionalSMCSampler._resample_swarm (it reads constrained_path[iteration + 1], a list of T + 1 items)
            it = I.to_num(s.fields["iteration"])
            I.P.check("C19.resample-precondition[%s]" % I.site(None), I.P.z(it) < I.P.z(s.fields["num_iterations"]),
                      "callers establish iteration < num_iterations before the conditional sampler resamples (else IndexError on the retained path)")

    def update(I, args, kwargs, node):
        s = args[0]
        trace.append(("update", s.fields["iteration"]))

    r.call_contracts[base + "_init_swarm"] = init
    r.call_contracts[base + "_resample_swarm"] = resample
    r.call_contracts[base + "_update_swarm"] = update

    def loop(I, node, fr):
        s = fr.self_obj
        T = s.fields["num_iterations"]
        P = I.P
        it0 = I.to_num(s.fields["iteration"])
        P.check("schedule.init-first", len(trace) >= 1 and trace[0][0] == "init" and all(e[0] != "update" for e in trace), "the pass starts with _init_swarm and no propagation before the loop", kind="post")
        must = not P.feasible(P.z(it0) >= P.z(T))
        mustnot = not P.feasible(P.z(it0) < P.z(T))
        n_res = sum(1 for e in trace if e[0] == "resample")
        P.check("schedule.first-resample", (must and n_res == 1) or (mustnot and n_res == 0),
                "resampling after initialisation happens iff a propagation step follows (iteration < num_iterations)", kind="post")
        holder = {}

        def havoc(I_, fr_):
            it = alg.sym(I_.P.fresh_name("it"), "Int")
            s.fields["iteration"] = it
            holder["it"] = it
            del trace[:]

        def after_body(I_, fr_):
            it = holder["it"]
            P_ = I_.P
            ups = [e for e in trace if e[0] == "update"]
            P_.check("schedule.one-update-per-iteration", len(ups) == 1 and trace[0][0] == "update" and I_.equal(ups[0][1], it) is True,
                     "each loop iteration propagates exactly once, first, at the current iteration", kind="post")
            last = not P_.feasible(P_.z(it) < P_.z(T) - 1)
            notlast = not P_.feasible(P_.z(it) >= P_.z(T) - 1)
            n_res = sum(1 for e in trace if e[0] == "resample")
            P_.check("schedule.resample-between-steps", (last and n_res == 0) or (notlast and n_res == 1),
                     "resampling follows a propagation iff another propagation follows", kind="post")
            P_.check("schedule.iteration-advances", P_.z(I_.to_num(s.fields["iteration"])) == P_.z(it) + 1, "iteration += 1 per loop iteration", kind="post")

        def inv(I_, fr_):
            it = I_.to_num(s.fields["iteration"])
            return z3.And(I_.P.z(it) >= I_.P.z(I_.to_num(s.fields["_init_consumes"])), I_.P.z(it) <= I_.P.z(T))

        dsl.loop_cut(I, node, fr, "sample.loop", havoc, inv, after_body)

    r.loop_invariants[(SAMPLE, 0)] = loop
    r.assumed += ["_init_swarm / _update_swarm / _resample_swarm by their own contracts (L5, L6)"]
    return r


def h_sample_schedule(I, fi):
    P = I.P
    trace = I.registry.trace
    del trace[:]
    s = Obj(fi.cls)
    T = alg.sym("T", "Int")
    P.assume(P.z(T) >= 1)
    conditional = P.decide(2) == 1
    dsl.cover(I, "conditional" if conditional else "unconditional")
    s.fields.update({"num_iterations": T, "iteration": 0, "_init_consumes": 1 if conditional else 0, "swarm": None})
    I.call_function(fi, [s], {}, force_inline=True)
    # reached only on the path that leaves the loop
    P.check("schedule.exit-iteration", P.z(I.to_num(s.fields["iteration"])) == P.z(T), "the pass ends with iteration == num_iterations", kind="post")
    dsl.cover(I, "after-loop")


# ----------------------------------------------------------------------------------------------------------- L2: the retained path


CSMC = "phyclone.smc.samplers.conditional.ConditionalSMCSampler"


def h_constrained_path(I, fi):
    """ConditionalSMCSampler._get_constrained_path: one arbitrary step t of the construction of the retained path.

    From an arbitrary state (tree built so far T_{t-1} = parent_tree = new_tree, retained particle p_{t-1} = constrained_path[-1],
    node map defined on the clones created so far) the step for data point x_t
      - works on a copy (T_{t-1} is not modified: it is the parent tree of the proposal),
      - places x_t where the conditioned tree has it: outliers / the image of its clone / a new top-level clone over the images of the clone's children,
      - asks the kernel for the proposal of (x_t, p_{t-1}, T_{t-1}), evaluates its log_p at the holder of T_t, and appends
        kernel.create_particle(log_q, p_{t-1}, holder(T_t));  afterwards parent_tree is T_t.
    The first step starts from the state the function really initialises (path [None], no parent tree, empty map, empty tree).
    requires (from the order drawn by RootPermutationDistribution.sample, C09): the children of a clone whose first data point is
    being placed have all been created already."""
    from contracts.models import AbsTree, BaseTree, DataPointModel
    P = I.P
    first = P.decide(2) == 0
    dsl.cover(I, "path.first-step" if first else "path.later-step")
    T = alg.sym("T", "Int")
    P.assume(P.z(T) >= 1)
    TD, PD = ("tree_dist",), ("perm_dist",)
    log = []

    class Proposal(Model):
        def __init__(self, k):
            self.k = k

        def m_log_p(self, I_, h):
            log.append(("log_p", self.k, h))
            return alg.raw_app("log_q", Num.const(self.k))

    class Kernel(Model):
        def a_tree_dist(self, I_):
            return TD

        def a_perm_dist(self, I_):
            return PD

        def m_get_proposal_distribution(self, I_, dp, pp, pt=None):
            log.append(("proposal", dp, pp, pt, None if pt is None else pt.placement))
            return Proposal(len(log))

        def m_create_particle(self, I_, lq, pp, h):
            log.append(("create", lq, pp, h))
            return ("particle", len(log))

    class Holder(Model):
        def __init__(self, tree, td, pd):
            self.tree, self.td, self.pd = tree, td, pd
            self.snapshot = tree.placement

    I.registry.class_models["TreeHolder"] = lambda I_, tree, td, pd: Holder(tree, td, pd)
    I.registry.class_models["Tree"] = lambda I_, grid_size=None: AbsTree(None)
    mapped = z3.Function("created", z3.IntSort(), z3.BoolSort())

    class NodeMap(Model):
        def __init__(self):
            self.stores = []

        def contains(self, I_, k):
            if first:
                return False
            return SBool(mapped(P.z(I_.to_num(k))))

        def getitem(self, I_, k):
            kn = I_.to_num(k)
            for a, b in self.stores:
                if (a - kn).is_zero():
                    return b
            if first:
                I_.P.check("key-present[node_map@%s]" % I_.site(None), False, "lookup in the empty node map")
            else:
                I_.P.check("key-present[node_map@%s]" % I_.site(None), mapped(P.z(kn)), "the clone has been created already")
            return alg.raw_app("image", kn, sort="Int")

        def setitem(self, I_, k, v):
            self.stores.append((I_.to_num(k), v))

    node_map = NodeMap()

    class Labels(Model):
        def getitem(self, I_, idx):
            return alg.raw_app("label_x", I_.to_num(idx), sort="Int")

    class Cond(Model):
        """the tree the pass is conditioned on"""

        py_classes = ("Tree",)

        def a_labels(self, I_):
            return Labels()

        def a_grid_size(self, I_):
            return ("grid",)

        def a_outlier_node_name(self, I_):
            return -1

        def a_graph(self, I_):
            return ("graph-of-x",)

        def m_get_children(self, I_, node):
            n = alg.raw_app("nch_x", I_.to_num(node), sort="Int")
            I_.P.assume(I_.P.z(n) >= 0)
            if first:
                I_.P.assume(I_.P.z(n) == 0, "requires (C09 order): the clone of the very first data point has no children")
            # requires: children precede their parent in the order (C09), so they are created already
            return SymSeq("children_x(%s)" % I_.to_num(node).key(), n, lambda i: alg.raw_app("child_x", I_.to_num(node), I_.to_num(i), sort="Int"),
                          (lambda I2, i: [] if first else [mapped(I2.P.z(alg.raw_app("child_x", I_.to_num(node), I2.to_num(i), sort="Int")))]))

    class Rx(Model):
        def m_is_isomorphic(self, I_, a, b, id_order=True):
            return True

    I.registry.globals_override["rx"] = Rx()
    cond = Cond()
    s = Obj(fi.cls)
    dps = SymSeq("sigma", T, lambda t: DataPointModel("x%s" % I.to_num(t).key()))
    s.fields.update({"kernel": Kernel(), "data_points": dps})
    st = {}

    class PathList(Model):
        def __init__(self, last):
            self.last, self.appended = last, []

        def getitem(self, I_, k):
            if not (I_.to_num(k) + 1).is_zero():
                return ("path-element", I_.to_num(k).key())  # some other element of the path: not the retained particle of step t-1
            return self.appended[-1] if self.appended else self.last

        def m_append(self, I_, x):
            self.appended.append(x)

    def loop(I_, node, fr):
        seq = I_.eval(node.iter, fr)
        P.check("L2.one-step-per-data-point", seq is dps, "the retained path has one step per data point of the order, in that order", kind="post")
        init_path = fr.vars.get("constrained_path")
        if first:
            P.check("L2.initial-state", isinstance(init_path, list) and init_path == [None] and fr.vars.get("parent_tree") is None and isinstance(fr.vars.get("new_tree"), AbsTree)
                    and fr.vars["new_tree"].base is None and fr.vars["new_tree"].placement is None and fr.vars.get("node_map") == {},
                    "the construction starts from the empty tree, no retained particle, no parent tree and an empty node map", kind="post")
            t = Num.const(0)
            prev, base = None, None
            tree0 = fr.vars["new_tree"]
            path = PathList(None)
        else:
            t = alg.sym("t", "Int")
            P.assume(z3.And(P.z(t) >= 1, P.z(t) < P.z(T)))
            prev = ("particle", "t-1")
            base = BaseTree(I_, "P")
            tree0 = AbsTree(base)
            fr.vars["parent_tree"] = tree0
            path = PathList(prev)
        fr.vars["new_tree"] = tree0
        fr.vars["constrained_path"] = path
        fr.vars["node_map"] = node_map
        dp = dps.core_at(I_, t)
        I_.assign_target(node.target, dp, fr)
        I_.exec_block(node.body, fr)
        lab = alg.raw_app("label_x", dp.idx, sort="Int")
        new_tree = fr.vars["new_tree"]
        P.check("L2.works-on-a-copy", new_tree is not tree0 and tree0.placement is None and isinstance(new_tree, AbsTree) and new_tree.base is base,
                "the step extends a copy; the tree of the previous step (the proposal's parent tree) is not modified", kind="post")
        pl = new_tree.placement
        if pl is None:
            P.check("L2.placement", False, "the data point is placed", kind="post")
            raise PathEnd()
        if pl[0] == "outlier":
            dsl.cover(I_, "path.outlier")
            P.check("L2.placement[outlier]", dsl.conj(new_tree.dp is dp, P.z(lab) == -1), "a data point that is an outlier in the conditioned tree is added to the outliers", kind="post")
        elif pl[0] == "exist":
            dsl.cover(I_, "path.existing-clone")
            P.check("L2.placement[existing]", z3.And(P.z(lab) != -1, mapped(P.z(lab)), P.z(I_.to_num(pl[1])) == P.z(alg.raw_app("image", lab, sort="Int"))) if new_tree.dp is dp else False,
                    "a data point whose clone has been created already is added to the image of that clone", kind="post")
            P.check("L2.node-map-unchanged[existing]", not node_map.stores, "the node map is not changed", kind="post")
        else:
            dsl.cover(I_, "path.new-clone")
            kids = pl[2]
            nch = alg.raw_app("nch_x", lab, sort="Int")
            if isinstance(kids, list):
                okk = len(kids) == 0 and not P.feasible(P.z(nch) > 0)  # the clone has no children
            else:
                okk = isinstance(kids, SymSeq) and not kids.tail and not P.feasible(P.z(kids.core_len) != P.z(nch))
                if okk and P.feasible(P.z(nch) > 0):
                    j = alg.sym("j_child", "Int")
                    P.assume(z3.And(P.z(j) >= 0, P.z(j) < P.z(nch)))
                    okk = (I_.to_num(kids.core_at(I_, j)) - alg.raw_app("image", alg.raw_app("child_x", lab, j, sort="Int"), sort="Int")).is_zero()
            P.check("L2.placement[new]", z3.And(P.z(lab) != -1, z3.BoolVal(True) if first else z3.Not(mapped(P.z(lab)))) if (okk and new_tree.dp is dp) else False,
                    "the first data point of a clone creates a new top-level clone whose children are the images of the clone's children, and is added to it", kind="post")
            P.check("L2.node-map-extended[new]", len(node_map.stores) == 1 and (node_map.stores[0][0] - lab).is_zero() and (I_.to_num(node_map.stores[0][1]) - I_.to_num(pl[1])).is_zero(),
                    "the node map sends the clone to the new top-level clone", kind="post")
        kinds = [e[0] for e in log]
        ok = kinds == ["proposal", "log_p", "create"] and len(path.appended) == 1
        P.check("L2.step-shape", ok, "one proposal, one density evaluation, one particle appended", kind="post")
        if not ok:
            raise PathEnd()
        pr, lp, cr = log
        P.check("L2.proposal-of-the-previous-state", pr[1] is dp and pr[2] is prev and pr[3] is (None if first else tree0) and (first or pr[4] is None),
                "the proposal is the kernel's proposal for (x_t, retained particle t-1, tree of step t-1)", kind="post")
        h = lp[2]
        P.check("L2.density-of-the-retained-tree", isinstance(h, Holder) and h.tree is new_tree and h.td is TD and h.pd is PD and h.snapshot is new_tree.placement and lp[1] == 1,
                "log_q is that proposal's log_p at the holder of the tree of step t (built after the placement)", kind="post")
        P.check("L2.particle", isinstance(cr[1], Num) and cr[1].key() == alg.raw_app("log_q", Num.const(1)).key() and cr[2] is prev and cr[3] is h and path.appended[0] == ("particle", 3),
                "the retained particle is kernel.create_particle(log_q, retained particle t-1, holder) and is appended to the path", kind="post")
        P.check("L2.parent-tree-advances", fr.vars.get("parent_tree") is new_tree, "the tree of step t becomes the parent tree of step t+1", kind="post")
        raise PathEnd()

    I.registry.loop_invariants[(fi.qualname, 0)] = loop
    I.call_function(fi, [s, cond], {}, force_inline=True)


PATH_COVERS = ["path.first-step", "path.later-step", "path.outlier", "path.existing-clone", "path.new-clone"]
