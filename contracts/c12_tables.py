"""C12 contracts on phyclone/process_trace/process_trace.py:get_labels_table, both branches (the pandas expressions of the clustered branch are kept as
terms; get_clone_table is in c11_pandas.py).

For any number of data points and any labelling: the records handed to pandas are
  - for every labelled data point idx: one record (mutation_id = data[idx].name, clone_id = labels[idx]), and its name is registered;
  - for every data point x of the input: one record (x.name, outlier node) exactly when x's name was not registered;
and the table returned is DataFrame(records).sort_values(by=[clone_id, mutation_id]) (pandas trusted: a permutation of the rows).
With unique names (C17) and a dictionary of labels (distinct idx) every mutation therefore appears exactly once."""
import z3

from pyvc import alg, dsl
from pyvc.alg import Num
from pyvc.builtins_model import SymSeq
from pyvc.interp import Model, SBool, Unsupported

PT = "phyclone.process_trace.process_trace"


class Name(Model):
    def __init__(self, idx):
        self.idx = idx

    def eq(self, I, other):
        return isinstance(other, Name) and (other.idx - self.idx).is_zero()


def h_labels_unclustered(I, fi):
    P = I.P
    n = alg.sym("n_data", "Int")
    m = alg.sym("n_labelled", "Int")
    P.assume(z3.And(P.z(n) >= 1, P.z(m) >= 0))
    log = {"records": [], "registered": [], "asked": []}
    registered = z3.Function("registered", z3.IntSort(), z3.BoolSort())

    class DP(Model):
        def __init__(self, idx):
            self.idx = I.to_num(idx)

        def a_name(self, I_):
            return Name(self.idx)

        def a_idx(self, I_):
            return self.idx

    class Data(SymSeq):
        def getitem(self, I_, key):
            return DP(key)

    data = Data("data", n, lambda i: DP(i))  # data[i].idx == i (C17: positions are the idx values)

    class Labels(SymSeq):
        def getitem(self, I_, key):
            return alg.raw_app("label", I_.to_num(key), sort="Int")

    labels = Labels("labels", m, lambda k: alg.raw_app("labelled_idx", I.to_num(k), sort="Int"))

    class NameSet(Model):
        def m_add(self, I_, x):
            log["registered"].append(x)

        def contains(self, I_, x):
            if not isinstance(x, Name):
                raise Unsupported("membership of a non-name")
            log["asked"].append(x)
            return SBool(registered(P.z(x.idx)))

    names = NameSet()
    outl = alg.sym("outlier_node_name", "Int")

    class TreeM(Model):
        def a_outlier_node_name(self, I_):
            return outl

        def a_labels(self, I_):
            return labels

    class DF(Model):
        def __init__(self, rows, by=None):
            self.rows, self.by = rows, by

        def m_sort_values(self, I_, by=None):
            return DF(self.rows, by)

    class Pd(Model):
        def m_DataFrame(self, I_, rows):
            return DF(rows)

    I.registry.globals_override["pd"] = Pd()
    I.registry.globals_override["set"] = lambda I_, *a: names
    # the record list is an append-only accumulator: under the independent-iterations rule it holds the record(s) of the
    # generic iteration of each loop, in order
    I.registry.generic_loops.add(fi.qualname)
    res = I.call_function(fi, [data, TreeM()], {"clusters": None}, force_inline=True)
    gens = P.ghost.get("generic_indices", [])
    dsl.cover(I, "labels.unclustered")
    if len(gens) == 1 and not P.feasible(P.z(m) != 0):
        # no labelled point at all (a tree object without any data): only the fill-in pass runs
        dsl.cover(I, "labels.nothing-labelled")
        j = gens[0]
        rows = res.rows if isinstance(res, DF) and isinstance(res.rows, list) else None
        P.check("labels.nothing-labelled", rows is not None and not log["registered"] and len(log["asked"]) == 1 and (log["asked"][0].idx - j).is_zero() and len(rows) <= 1, "without labelled points only the fill-in pass adds records", kind="post")
        return
    P.check("labels.two-passes", len(gens) == 2, "one pass over the labelled points, one over the input data", kind="post")
    if len(gens) != 2:
        return
    k, j = gens
    if not (isinstance(res, DF) and isinstance(res.rows, list)):
        P.check("labels.table-is-the-records", False, "the table is DataFrame(records), rows permuted by a sort on the records' own columns", kind="post")
        return
    log["records"] = res.rows
    idx = alg.raw_app("labelled_idx", k, sort="Int")
    first = log["records"][0] if log["records"] else None
    ok1 = isinstance(first, dict) and set(first) == {"mutation_id", "clone_id"} and isinstance(first["mutation_id"], Name) and (first["mutation_id"].idx - idx).is_zero() \
        and isinstance(first["clone_id"], Num) and (first["clone_id"] - alg.raw_app("label", idx, sort="Int")).is_zero()
    P.check("labels.labelled-point-record", ok1, "a labelled point idx yields the record (data[idx].name, labels[idx])", kind="post")
    P.check("labels.labelled-name-registered", len(log["registered"]) == 1 and isinstance(log["registered"][0], Name) and (log["registered"][0].idx - idx).is_zero(),
            "exactly the names of labelled points are registered", kind="post")
    P.check("labels.membership-asked-for-own-name", len(log["asked"]) == 1 and (log["asked"][0].idx - j).is_zero(), "input point x is looked up by its own name", kind="post")
    rest = log["records"][1:]
    is_reg = registered(P.z(j))
    if rest:
        r = rest[0]
        ok2 = len(rest) == 1 and isinstance(r, dict) and set(r) == {"mutation_id", "clone_id"} and isinstance(r["mutation_id"], Name) and (r["mutation_id"].idx - j).is_zero() \
            and isinstance(r["clone_id"], Num) and (r["clone_id"] - outl).is_zero()
        P.check("labels.unlabelled-point-is-outlier", ok2 and z3.Not(is_reg), "a point whose name is not registered yields exactly one record (x.name, outlier node)", kind="post")
        dsl.cover(I, "labels.fill-in")
    else:
        P.check("labels.registered-point-not-repeated", is_reg, "a point whose name is registered yields no second record", kind="post")
        dsl.cover(I, "labels.no-fill-in")
    # the property says nothing about the order of the rows: any sort key made of the records' columns is a permutation of the same rows
    P.check("labels.table-is-the-records", isinstance(res, DF) and (res.by is None or (isinstance(res.by, (list, tuple, str)) and set([res.by] if isinstance(res.by, str) else res.by) <= {"clone_id", "mutation_id"})),
            "the table is DataFrame(records), rows permuted by a sort on the records' own columns", kind="post")


COVERS = ["labels.unclustered", "labels.fill-in", "labels.no-fill-in", "labels.nothing-labelled"]


def h_labels_clustered(I, fi):
    """get_labels_table with a cluster table, for any number of clusters, labelled data points and mutations per cluster:
      - a labelled data point idx stands for the cluster whose id is int(data[idx].name); it yields one record
        (mutation, labels[idx], that cluster id) for every distinct mutation id of THAT cluster's group of the cluster table, and exactly those ids are registered;
      - after the loop the rows of the cluster table whose mutation id is not registered are copied, get the outlier node as clone id (on the copy) and are
        appended as records;
      - the table is DataFrame(records) sorted by (clone, cluster, mutation).
    pandas expressions are kept as terms (their meaning is pandas')."""
    from contracts.c17_loader import E, _same, _flat
    P = I.P
    n = alg.sym("n_data", "Int")
    m = alg.sym("n_labelled", "Int")
    P.assume(z3.And(P.z(n) >= 1, P.z(m) >= 0))
    events = []

    class DP(Model):
        def __init__(self, idx):
            self.idx = I.to_num(idx)

        def a_name(self, I_):
            return Name(self.idx)

    class Data(SymSeq):
        def getitem(self, I_, key):
            return DP(key)

    data = Data("data", n, lambda i: DP(i))

    class Labels(SymSeq):
        def getitem(self, I_, key):
            return alg.raw_app("label", I_.to_num(key), sort="Int")

    labels = Labels("labels", m, lambda k: alg.raw_app("labelled_idx", I.to_num(k), sort="Int"))
    outl = alg.sym("outlier_node_name", "Int")

    class TreeM(Model):
        def a_outlier_node_name(self, I_):
            return outl

        def a_labels(self, I_):
            return labels

    def to_int(I_, x):
        if not isinstance(x, Name):
            raise Unsupported("int() of something that is not a data point name")
        return alg.raw_app("cluster_id_of_name", x.idx, sort="Int")

    class Muts(SymSeq):
        """the distinct mutation ids of one group of the cluster table"""

    def muts_of(cid):
        c = I.to_num(cid)
        ln = alg.raw_app("n_muts_of_cluster", c, sort="Int")
        P.assume(P.z(ln) >= 0)
        s = Muts("muts", ln, lambda t: ("mutation", c.key(), _k(I.to_num(t))))
        s.cid = c
        return s

    def _k(x):
        return x.key() if isinstance(x, Num) else x

    class Series(Model):
        def __init__(self, cid):
            self.cid = cid

        def m_unique(self, I_):
            return muts_of(self.cid)

    class Group(Model):
        def __init__(self, cid):
            self.cid = cid

        def getitem(self, I_, col):
            if col != "mutation_id":
                raise Unsupported("group[%r]" % (col,))
            return Series(self.cid)

    class Grouped(Model):
        def __init__(self, by):
            self.by = by

        def m_get_group(self, I_, cid):
            events.append(("get_group", self.by, I_.to_num(cid).key()))
            return Group(I_.to_num(cid))

    class NameSet(Model):
        def m_update(self, I_, xs):
            events.append(("registered", xs))

        def m_add(self, I_, x):
            events.append(("registered-one", x))

    names = NameSet()

    class Clusters(E):
        def m_groupby(self, I_, by, **k):
            return Grouped(by)

        def m_isin(self, I_, other):
            events.append(("isin-evaluated", other))
            return E("isin", self, "registered" if other is names else other)

    class ClustersCol(Clusters):
        pass

    class ClustersDF(E):
        def m_groupby(self, I_, by, **k):
            return Grouped(by)

        def getitem(self, I_, key):
            if key == "mutation_id":
                return ClustersCol("getitem", self, key)
            return E.getitem(self, I_, key)

        def setitem(self, I_, key, v):
            events.append(("store-into-the-cluster-table", key))

    clusters = ClustersDF("clusters")

    class Missing(Model):
        """a frame derived from the cluster table"""

        def __init__(self, term, copied=False, stores=()):
            self.term, self.copied, self.stores = term, copied, list(stores)

        def m_copy(self, I_):
            return Missing(self.term, True, self.stores)

        def setitem(self, I_, key, v):
            if not self.copied:
                events.append(("store-into-a-view", key))
            self.stores.append((key, v))

        def m_to_dict(self, I_, how=None):
            return ("records-of", self, how)

    class LocM(Model):
        def getitem(self, I_, key):
            return Missing(E("loc", clusters, key))

    ClustersDF.a_loc = lambda self, I_: LocM()
    ClustersDF.getitem_mask = None

    class RecList(Model):
        def m_append(self, I_, x):
            events.append(("records", "one", x))

        def m_extend(self, I_, xs):
            events.append(("records", "many", xs))

    recs = RecList()

    class DF(Model):
        def __init__(self, rows, by=None):
            self.rows, self.by = rows, by

        def m_sort_values(self, I_, by=None):
            return DF(self.rows, by)

    class Pd(Model):
        def m_DataFrame(self, I_, rows):
            events.append(("frame", rows))
            return DF(rows)

    I.registry.globals_override["pd"] = Pd()
    I.registry.globals_override["set"] = lambda I_, *a: names
    I.registry.globals_override["int"] = to_int
    I.registry.empty_list_model = lambda I_, node: recs
    I.registry.generic_loops.add(fi.qualname)
    res = I.call_function(fi, [data, TreeM()], {"clusters": clusters}, force_inline=True)
    gens = P.ghost.get("generic_indices", [])
    dsl.cover(I, "labels.clustered")
    P.check("labels.clustered.no-store-into-the-cluster-table", not [e for e in events if e[0] in ("store-into-the-cluster-table", "store-into-a-view")],
            "the caller's cluster table is not written (the outlier clone id goes to a copy)", kind="post")
    # ---- the fill-in: after the loop, from the complete set of registered ids
    tail = [e for e in events if e[0] in ("isin-evaluated", "frame") or (e[0] == "records" and e[1] == "many" and isinstance(e[2], tuple))]
    kinds = [e[0] for e in tail]
    ok_order = kinds == ["isin-evaluated", "records", "frame"] and events.index(tail[0]) > max([i for i, e in enumerate(events) if e[0] in ("registered", "get_group")] + [-1])
    P.check("labels.clustered.fill-in-after-all-clusters", ok_order, "the unregistered mutations are selected once, after every labelled cluster was registered, then appended, then the table is built", kind="post")
    if not ok_order:
        return
    fill = tail[1][2]
    ok_fill = isinstance(fill, tuple) and fill[0] == "records-of" and fill[2] == "records" and isinstance(fill[1], Missing) and fill[1].copied
    want = E("loc", clusters, E("not", E("isin", E("getitem", clusters, "mutation_id"), "registered")))
    ok_term = ok_fill and _same(_flat(fill[1].term), _flat(want))
    P.check("labels.clustered.fill-in-rows", ok_term, "the appended rows are clusters.loc[~clusters.mutation_id.isin(registered ids)] (a copy), as records", kind="term")
    ok_store = ok_fill and len(fill[1].stores) == 1 and fill[1].stores[0][0] == "clone_id" and isinstance(fill[1].stores[0][1], Num) and (fill[1].stores[0][1] - outl).is_zero()
    P.check("labels.clustered.fill-in-gets-the-outlier-node", ok_store, "the only column written on the copy is clone_id = the outlier node", kind="post")
    by_ok = isinstance(res, DF) and (res.by is None or (isinstance(res.by, (list, tuple, str)) and set([res.by] if isinstance(res.by, str) else res.by) <= {"clone_id", "cluster_id", "mutation_id"}))
    P.check("labels.clustered.table-is-the-records", tail[2][1] is recs and by_ok,
            "the table is DataFrame(records), rows permuted by a sort on the records' own columns", kind="post")
    # ---- one arbitrary labelled data point
    if not gens:
        dsl.cover(I, "labels.clustered.nothing-labelled")
        P.check("labels.clustered.nothing-labelled", not [e for e in events if e[0] in ("registered", "get_group", "registered-one")] and not P.feasible(P.z(m) != 0), "without labelled points only the fill-in adds records", kind="post")
        return
    dsl.cover(I, "labels.clustered.some")
    P.check("labels.clustered.one-pass", len(gens) == 1, "one pass over the labelled points", kind="post")
    k = gens[0]
    idx = alg.raw_app("labelled_idx", k, sort="Int")
    cid = alg.raw_app("cluster_id_of_name", idx, sort="Int")
    groups = [e for e in events if e[0] == "get_group"]
    P.check("labels.clustered.group-of-the-points-own-cluster", groups == [("get_group", "cluster_id", cid.key())], "the mutations are those of the group cluster_id == int(data[idx].name) of the cluster table", kind="post")
    reg = [e for e in events if e[0] in ("registered", "registered-one")]
    ok_reg = len(reg) == 1 and reg[0][0] == "registered" and isinstance(reg[0][1], Muts) and (reg[0][1].cid - cid).is_zero() and not reg[0][1].tail and getattr(reg[0][1], "mapped", None) is None
    P.check("labels.clustered.cluster-mutations-registered", ok_reg, "exactly the distinct mutation ids of that cluster are registered", kind="post")
    many = [e for e in events if e[0] == "records" and not isinstance(e[2], tuple)]
    ok_rec = False
    if len(many) == 1 and many[0][1] == "many" and isinstance(many[0][2], SymSeq) and not many[0][2].tail:
        seq = many[0][2]
        ln = alg.raw_app("n_muts_of_cluster", cid, sort="Int")
        if not P.feasible(P.z(seq.core_len) != P.z(ln)):
            t = alg.sym("t_mut", "Int")
            P.assume(z3.And(P.z(t) >= 0, P.z(t) < P.z(ln)))
            if P.feasible(z3.BoolVal(True)):
                r = seq.core_at(I, t)
                ok_rec = isinstance(r, dict) and set(r) == {"mutation_id", "clone_id", "cluster_id"} and r["mutation_id"] == ("mutation", cid.key(), t.key()) \
                    and isinstance(r["clone_id"], Num) and (r["clone_id"] - alg.raw_app("label", idx, sort="Int")).is_zero() and isinstance(r["cluster_id"], Num) and (r["cluster_id"] - cid).is_zero()
            else:
                ok_rec = True
    P.check("labels.clustered.one-record-per-mutation-of-the-cluster", ok_rec, "the labelled point yields one record (mutation, labels[idx], cluster id) per distinct mutation of its cluster, nothing else", kind="post")


COVERS_CLUSTERED = ["labels.clustered"]


# ----------------------------------------------------------------------------------------------------------- graph conversion (process_trace/utils.py)


def h_convert(I, fi):
    """convert_rustworkx_to_networkx on a directed graph: every edge becomes an edge between the NAMES of its end points (weight kept), every node -
    also one without any edge (the root of a tree without clones, finding F09) - exists in the result and carries its TreeNode's dictionary."""
    from pyvc.builtins_model import ExternalClass
    P = I.P
    ne, nn = alg.sym("n_edges", "Int"), alg.sym("n_nodes", "Int")
    P.assume(z3.And(P.z(ne) >= 0, P.z(nn) >= 1))
    log = []

    class Pay(Model):
        def __init__(self, key):
            self.key = key

        def a_node_id(self, I_):
            return ("name-of", self.key)

        def m_to_dict(self, I_):
            return ("dict-of", self.key)

    class RG(Model):
        py_classes = ("PyDiGraph",)

        def m_weighted_edge_list(self, I_):
            return SymSeq("edges", ne, lambda e: (alg.raw_app("src", I_.to_num(e), sort="Int"), alg.raw_app("dst", I_.to_num(e), sort="Int"), ("weight", I_.to_num(e).key())))

        def getitem(self, I_, idx):
            return Pay(("idx", I_.to_num(idx).key()))

        def m_nodes(self, I_):
            return SymSeq("nodes", nn, lambda k: Pay(("node", I_.to_num(k).key())))

    class Attr(Model):
        def __init__(self, nd):
            self.nd = nd

        def m_update(self, I_, d):
            log.append(("attrs", self.nd, d))

    class NodesV(Model):
        def getitem(self, I_, nd):
            return Attr(nd)

    class NXG(Model):
        def __init__(self, edges):
            self.edges = edges

        def m_add_node(self, I_, nd):
            log.append(("add-node", nd))

        def a_nodes(self, I_):
            return NodesV()

    class NXM(Model):
        def m_DiGraph(self, I_, edges=None):
            log.append(("digraph", edges))
            return NXG(edges)

        def m_Graph(self, I_, edges=None):
            log.append(("undirected", edges))
            return NXG(edges)

    class RXM(Model):
        def a_PyGraph(self, I_):
            return ExternalClass("PyGraph")

    I.registry.globals_override["nx"] = NXM()
    I.registry.globals_override["rx"] = RXM()
    I.registry.generic_loops.add(fi.qualname)
    out = I.call_function(fi, [RG()], {}, force_inline=True)
    dsl.cover(I, "convert")
    made = [e for e in log if e[0] in ("digraph", "undirected")]
    ok = len(made) == 1 and made[0][0] == "digraph" and isinstance(made[0][1], SymSeq) and not P.feasible(P.z(made[0][1].core_len) != P.z(ne)) and isinstance(out, NXG)
    P.check("convert.directed-graph-from-all-edges", ok, "a directed networkx graph is built from one entry per edge", kind="post")
    if ok and P.feasible(P.z(ne) > 0):
        e = alg.sym("e", "Int")
        P.assume(z3.And(P.z(e) >= 0, P.z(e) < P.z(ne)))
        a, b, w = made[0][1].core_at(I, e)
        P.check("convert.edge-by-names", a == ("name-of", ("idx", alg.raw_app("src", e, sort="Int").key())) and b == ("name-of", ("idx", alg.raw_app("dst", e, sort="Int").key())) and w == {"weight": ("weight", e.key())},
                "edge e connects the names of its source and target and keeps its weight", kind="post")
    gens = P.ghost.get("generic_indices", [])
    k = gens[-1] if gens else None
    rest = [e for e in log if e[0] in ("add-node", "attrs")]
    okn = k is not None and rest == [("add-node", ("name-of", ("node", k.key()))), ("attrs", ("name-of", ("node", k.key())), ("dict-of", ("node", k.key())))]
    P.check("convert.every-node-present-with-its-attributes", okn, "every node of the source graph is added by name (also when no edge mentions it) and gets its TreeNode's dictionary", kind="post")


def verify_all(ctx, repo, prop="C12"):
    dsl.verify(ctx, repo, dsl.Registry(), prop, PT + ".get_labels_table", h_labels_unclustered, expect_covers=COVERS)
    dsl.verify(ctx, repo, dsl.Registry(), prop, PT + ".get_labels_table", h_labels_clustered, expect_covers=COVERS_CLUSTERED)
    dsl.verify(ctx, repo, dsl.Registry(), prop, "phyclone.process_trace.utils.convert_rustworkx_to_networkx", h_convert, expect_covers=["convert"])


