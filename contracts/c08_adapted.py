"""Contracts on the adapted proposals (C08): SemiAdaptedProposalDistribution.sample/log_p/_propose_existing_node/
_propose_new_node/_get_log_p and FullyAdaptedProposalDistribution.sample/log_p, for any number of candidates and any
number R of top-level clones.

Class invariant assumed here (established by _init_dist; see the `init` harnesses and the bounded enumeration):
  INV1  the stored candidate log-probabilities are normalised: sum_i exp(_log_p[c_i]) == 1, and (semi) _q_dist[i] ==
        exp(_log_p[_curr_trees[i]]);
  INV2  (semi, non-empty parent) every stored candidate labels the new point with a clone of the parent or with -1, and
        that label is its node_last_added_to;
  INV3  (semi) log_half == log(1/2); _cached_log_old_num_roots == log(R + 1); parent_is_empty_tree <=> no top-level clone.
"""
import z3

from pyvc import alg, dsl
from pyvc.alg import Num
from pyvc.builtins_model import SymSeq
from pyvc.interp import VC, Model, Obj, PyRaise, Unsupported
from contracts.models import BaseTree, DataPointModel, ParentParticle, RngModel

SEMI = "phyclone.smc.kernels.semi_adapted.SemiAdaptedProposalDistribution"
FULL = "phyclone.smc.kernels.fully_adapted.FullyAdaptedProposalDistribution"


class Holder(Model):
    py_classes = ("TreeHolder",)

    def __init__(self, fam, i, dp):
        self.fam = fam
        self.i = i
        self.dp = dp

    def f(self, name, sort="Real"):
        return alg.raw_app("%s_%s" % (name, self.fam), self.i, sort=sort)

    def a_log_p(self, I):
        return self.f("lp")

    def a_outlier_node_name(self, I):
        return -1

    def a_labels(self, I):
        return HolderLabels(self)

    def a_node_last_added_to(self, I):
        return self.f("last", "Int")

    def a_num_children_on_node_that_matters(self, I):
        return self.f("nchm", "Int")

    def eq(self, I, other):
        return isinstance(other, Holder) and other.fam == self.fam and I.equal(self.i, other.i)

    def hash(self, I):
        return self.f("hash", "Int")


class HolderLabels(Model):
    def __init__(self, h):
        self.h = h

    def getitem(self, I, idx):
        if I.equal(idx, self.h.dp.idx) is not True:
            raise Unsupported("label of another data point")
        return self.h.f("lab", "Int")


class SymDict(Model):
    """dict(zip(candidates, values)) with pairwise distinct candidate keys (A-DISTINCT)."""

    def __init__(self, keys, vals):
        self.keys = keys
        self.vals = vals

    def m_values(self, I):
        return self.vals

    def m_keys(self, I):
        return self.keys

    def getitem(self, I, key):
        if isinstance(key, Holder) and key.fam == self.fam_of():
            return self.vals.at(I, key.i)
        I.P.vcs.append(VC("key-present[_log_p@%s]" % I.site(None), "refuted", "lookup of a tree that is not a stored candidate"))
        raise PyRaise("KeyError")

    def fam_of(self):
        return self.keys.fam


def cand_seq(fam, M, dp):
    s = SymSeq("cands(%s)" % fam, M, lambda i: Holder(fam, i, dp))
    s.fam = fam
    return s


def registry():
    r = dsl.Registry()

    def cached_new_tree(I, args, kwargs, node):
        parent_particle, data_point, children, tree_dist, perm_dist = args
        # contract of get_cached_new_tree: the parent's tree with a new clone above `children` holding the data point
        h = Holder("new", alg.sym(I.P.fresh_name("newtree"), "Int"), data_point)
        P = I.P
        lab = h.f("lab", "Int")
        P.assume(z3.And(P.z(lab) >= 0, P.z(h.f("last", "Int")) == P.z(lab)))
        P.assume(z3.Not(parent_particle.a_tree_nodes(I).contains(I, lab).e))
        P.assume(P.z(h.f("nchm", "Int")) == P.z(I.to_num(children.size if hasattr(children, "size") else len(children))))
        return h

    r.call_contracts["phyclone.smc.kernels.semi_adapted.get_cached_new_tree"] = cached_new_tree
    r.globals_override["frozenset"] = lambda I, x=(): x if hasattr(x, "size") else FrozenList(x)
    r.assumed += ["get_cached_new_tree(parent, dp, S): the parent's tree plus a new clone above S holding dp (AbsTree.create_root_node contract + TreeHolder setter)",
                  "class invariant INV1-INV3 of the adapted proposal objects (established by _init_dist)",
                  "A-DISTINCT: the candidate trees of one proposal are pairwise different (dict keys do not collapse)",
                  "numpy.random.Generator.random/integers/choice/multinomial (RngModel)"]
    return r


class FrozenList(Model):
    def __init__(self, xs):
        self.xs = list(xs)
        self.size = len(self.xs)

    def m___len__(self, I):
        return len(self.xs)


def semi_obj(I, cls, has_parent):
    P = I.P
    dp = DataPointModel("dp")
    rng = RngModel()
    self = Obj(cls)
    M = alg.sym("M", "Int")
    P.assume(P.z(M) >= 1)
    cands = cand_seq("c", M, dp)
    lq = SymSeq("lq", M, lambda i: alg.raw_app("lq_c", i))
    b = alg.bound_index()
    P.assume(P.z(alg.bigsum("", M, alg.sexp(alg.raw_app("lq_c", b)))) == 1, "INV1: stored candidate probabilities are normalised")
    q = SymSeq("q", M, lambda i: alg.sexp(alg.raw_app("lq_c", i)))
    self.fields.update({"data_point": dp, "_rng": rng, "outlier_proposal_prob": alg.sym("o"), "tree_dist": None, "perm_dist": None,
                        "log_half": -alg.sym("log2"), "_q_dist": q, "_curr_trees": cands, "_log_p": SymDict(cands, lq), "parent_tree": None})
    base = None
    if has_parent:
        base = BaseTree(I, "T")
        self.fields["parent_particle"] = ParentParticle(base)
        empty = P.decide(2) == 1
        P.assume(P.z(base.R) == 0 if empty else P.z(base.R) > 0)
        self.fields["parent_is_empty_tree"] = empty
        if not empty:
            self.fields["_cached_log_old_num_roots"] = alg.slog(base.R + 1)
        dsl.cover(I, "parent-empty" if empty else "parent-with-clones")
    else:
        self.fields["parent_particle"] = None
        self.fields["parent_is_empty_tree"] = True
        dsl.cover(I, "parent-none")
    return self, dp, rng, base, cands


def h_semi(I, sample_fi, logp_fi):
    P = I.P
    has_parent = P.decide(2) == 1
    self, dp, rng, base, cands = semi_obj(I, sample_fi.cls, has_parent)
    tree = I.call_function(sample_fi, [self], {}, force_inline=True)
    log_rho = rng.total_log_rho(I)
    kind = "stored" if tree.fam == "c" else "new"
    dsl.cover(I, "outcome-" + kind)
    if kind == "stored" and base is not None and not self.fields["parent_is_empty_tree"]:
        lab = tree.f("lab", "Int")
        P.assume(z3.And(z3.Or(base.nodes_seq(I).contains(I, lab).e, P.z(lab) == -1), P.z(tree.f("last", "Int")) == P.z(lab)),
                 "INV2: stored candidates place the point on a parent clone or in the outliers")
    lp = I.call_function(logp_fi, [self, tree], {}, force_inline=True)
    P.check("semi.faithful[%s]" % kind, P.z(I.to_num(lp)) == P.z(log_rho), "log rho(sample path) == log_p(result): rho=%r log_p=%r" % (log_rho, lp), kind="post")


SEMI_COVERS = ["parent-none", "parent-empty", "parent-with-clones", "outcome-stored", "outcome-new"]


def h_full(I, sample_fi, logp_fi):
    P = I.P
    dp = DataPointModel("dp")
    rng = RngModel()
    self = Obj(sample_fi.cls)
    M = alg.sym("M", "Int")
    P.assume(P.z(M) >= 1)
    cands = cand_seq("c", M, dp)
    lq = SymSeq("lq", M, lambda i: alg.raw_app("lq_c", i))
    b = alg.bound_index()
    P.assume(P.z(alg.bigsum("", M, alg.sexp(alg.raw_app("lq_c", b)))) == 1, "INV1: stored candidate probabilities are normalised")
    self.fields.update({"data_point": dp, "_rng": rng, "_log_p": SymDict(cands, lq), "tree_dist": None, "perm_dist": None, "parent_tree": None,
                        "parent_particle": None, "outlier_proposal_prob": alg.sym("o")})
    tree = I.call_function(sample_fi, [self], {}, force_inline=True)
    log_rho = rng.total_log_rho(I)
    lp = I.call_function(logp_fi, [self, tree], {}, force_inline=True)
    P.check("full.faithful", P.z(I.to_num(lp)) == P.z(log_rho), "log rho(sample path) == log_p(result): rho=%r log_p=%r" % (log_rho, lp), kind="post")
    dsl.cover(I, "full-sampled")


def h_log_normalize(I, fi):
    """phyclone.utils.math.log_normalize + log_sum_exp: out[i] = x[i] - log sum_j exp(x[j]); sum_i exp(out[i]) == 1."""
    P = I.P
    M = alg.sym("M", "Int")
    P.assume(P.z(M) >= 1)
    x = SymSeq("x", M, lambda i: alg.raw_app("x", i))
    out = I.call_function(fi, [x], {}, force_inline=True)
    i = alg.sym("i", "Int")
    P.assume(z3.And(P.z(i) >= 0, P.z(i) < P.z(M)))
    b = alg.bound_index()
    Z = alg.bigsum("", M, alg.sexp(alg.raw_app("x", b)))
    P.check("log_normalize.value", P.z(I.to_num(out.at(I, i))) == P.z(alg.raw_app("x", i) - alg.slog(Z)), "out[i] = x[i] - log sum exp x", kind="post")
    from pyvc.builtins_model import np_exp, np_sum

    tot = np_sum(I, np_exp(I, out))
    P.check("log_normalize.normalised", P.z(I.to_num(tot)) == 1, "sum_i exp(out[i]) == 1 (establishes INV1)", kind="post")
    dsl.cover(I, "normalised")
