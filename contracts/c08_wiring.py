"""C08 / C01 wiring contracts of the kernel layer (no arithmetic):

  Kernel.propose_particle(x, parent)            the particle is create_particle(q.log_p(t), parent, t) where q = get_proposal_distribution(x, parent) and t = q.sample():
                                                the density used in the weight is the density of the very proposal the tree was drawn from
  ProposalDistribution.__init__ / _set_parent_tree   fields from the arguments and the kernel (tree_dist, perm_dist, generator); the parent tree is the one given,
                                                else the parent particle's tree, else None
  Bootstrap / SemiAdapted / FullyAdapted ProposalDistribution.__init__   base initialisation first; the adapted ones then build their candidate distribution (_init_dist)
  BootstrapKernel.get_proposal_distribution     a bootstrap proposal for (x, parent, parent tree) with the kernel's outlier proposal probability
  Semi / Fully adapted kernel get_proposal_distribution   the parent tree is parked on the parent particle, and the cached constructor is asked with
                                                (x, kernel, parent, outlier proposal probability, current alpha): the key contains everything the proposal depends on (C14)"""
from pyvc import alg, dsl
from pyvc.alg import Num
from pyvc.interp import Model, Obj, Unsupported

KB = "phyclone.smc.kernels.base"
BOOT = "phyclone.smc.kernels.bootstrap"
SEMI = "phyclone.smc.kernels.semi_adapted"
FULL = "phyclone.smc.kernels.fully_adapted"


def h_propose_particle(I, fi):
    P = I.P
    k = Obj(fi.cls)
    log = []

    class Q(Model):
        def m_sample(self, I_):
            log.append(("sample", self))
            return ("tree-drawn",)

        def m_log_p(self, I_, t):
            log.append(("log_p", self, t))
            return ("log-q",)

    I.registry.call_contracts[KB + ".Kernel.get_proposal_distribution"] = lambda I_, a, kw, n: (log.append(("proposal", a[1], a[2])), Q())[1]
    I.registry.call_contracts[KB + ".Kernel.create_particle"] = lambda I_, a, kw, n: (log.append(("create", a[1], a[2], a[3])), ("particle",))[1]
    x, parent = ("data-point",), ("parent",)
    out = I.call_function(fi, [k, x, parent], {}, force_inline=True)
    dsl.cover(I, "propose_particle")
    ok = len(log) == 4 and log[0] == ("proposal", x, parent) and log[1][0] == "sample" and log[2][0] == "log_p" and log[2][1] is log[1][1] and log[2][2] == ("tree-drawn",) \
        and log[3] == ("create", ("log-q",), parent, ("tree-drawn",)) and out == ("particle",)
    P.check("kernel.propose-particle", ok, "the tree is drawn from the proposal for (data point, parent), weighed with THAT proposal's density of THAT tree, and turned into a particle with that parent", kind="post")


class KernelM(Model):
    py_classes = ("Kernel",)

    def a_tree_dist(self, I):
        return ("tree_dist",)

    def a_perm_dist(self, I):
        return ("perm_dist",)

    def a_rng(self, I):
        return ("rng",)

    def a_log_half(self, I):
        return ("log-half",)


class PP(Model):
    py_classes = ("Particle",)

    def a_tree(self, I):
        return ("tree-of-parent-particle",)


def h_proposal_init(I, base_init, set_parent, boot_init, semi_init, full_init):
    P = I.P
    which = P.decide(3)
    init_fi = [boot_init, semi_init, full_init][which]
    tag = ["bootstrap", "semi", "full"][which]
    case = P.decide(3)  # parent tree given / taken from the particle / no parent
    dsl.cover(I, "proposal-init.%s.%d" % (tag, case))
    self = Obj(init_fi.cls)
    inits = []
    for q in (SEMI + ".SemiAdaptedProposalDistribution._init_dist", FULL + ".FullyAdaptedProposalDistribution._init_dist"):
        I.registry.call_contracts[q] = lambda I_, a, kw, n: inits.append(dict(a[0].fields))
    k = KernelM()
    pp = None if case == 2 else PP()
    pt = ("tree-given",) if case == 0 else None
    o = alg.sym("o")
    I.call_function(init_fi, [self, ("data-point",), k, pp], {"outlier_proposal_prob": o, "parent_tree": pt}, force_inline=True)
    f = self.fields if which == 0 or not inits else inits[0]
    want_tree = {0: ("tree-given",), 1: ("tree-of-parent-particle",), 2: None}[case]
    P.check("proposal-init.fields[%s]" % tag, f.get("data_point") == ("data-point",) and f.get("tree_dist") == ("tree_dist",) and f.get("perm_dist") == ("perm_dist",) and f.get("_rng") == ("rng",)
            and f.get("outlier_proposal_prob") is o and f.get("parent_particle") is pp, "data point, parent particle and outlier proposal probability from the arguments; distributions and generator from the kernel", kind="post")
    P.check("proposal-init.parent-tree[%s]" % tag, f.get("parent_tree") == want_tree, "the parent tree is the one given, else the parent particle's own tree, else None (no parent)", kind="post")
    if which == 0:
        P.check("proposal-init.bootstrap-has-no-candidate-table", not inits, "the bootstrap proposal builds nothing else", kind="post")
    else:
        P.check("proposal-init.candidates-built-after-the-fields[%s]" % tag, len(inits) == 1, "the candidate distribution is built once, after all fields are set (as captured at the call of _init_dist)", kind="post")
    if which == 1:
        P.check("proposal-init.semi-extras", f.get("log_half") == ("log-half",) and f.get("parent_is_empty_tree") is False, "the semi-adapted proposal takes log(1/2) from its kernel and starts with parent_is_empty_tree = False", kind="post")


INIT_COVERS = ["proposal-init.%s.%d" % (t, c) for t in ("bootstrap", "semi", "full") for c in range(3)]


def h_get_proposal(I, boot_fi, semi_fi, full_fi):
    P = I.P
    which = P.decide(3)
    fi = [boot_fi, semi_fi, full_fi][which]
    tag = ["bootstrap", "semi", "full"][which]
    has_parent = P.decide(2) == 1
    dsl.cover(I, "get-proposal.%s.%s" % (tag, "parent" if has_parent else "first"))
    k = Obj(fi.cls)
    o = alg.sym("o")
    alpha = alg.sym("alpha")

    class Prior(Model):
        def a_alpha(self, I_):
            return alpha

    class TD(Model):
        def a_prior(self, I_):
            return Prior()

    k.fields.update({"outlier_proposal_prob": o, "tree_dist": TD()})
    made = []
    I.registry.class_models["BootstrapProposalDistribution"] = lambda I_, *a, **kw: (made.append(("boot", a, kw)), ("proposal",))[1]
    I.registry.call_contracts[SEMI + "._get_cached_semi_proposal_dist"] = lambda I_, a, kw, n: (made.append(("semi", tuple(a), kw)), ("proposal",))[1]
    I.registry.call_contracts[FULL + "._get_cached_full_proposal_dist"] = lambda I_, a, kw, n: (made.append(("full", tuple(a), kw)), ("proposal",))[1]

    class Par(Model):
        py_classes = ("Particle",)

        def __init__(self):
            self.built = "unset"

        def setattr(self, I_, name, value):
            if name != "built_tree":
                raise Unsupported("store to particle.%s" % name)
            self.built = value

    pp = Par() if has_parent else None
    pt = ("parent-tree",)
    x = ("data-point",)
    out = I.call_function(fi, [k, x, pp], {"parent_tree": pt}, force_inline=True)
    P.check("get-proposal.returns-it[%s]" % tag, out == ("proposal",) and len(made) == 1, "exactly one proposal is obtained and returned", kind="post")
    if len(made) != 1:
        return
    kind, a, kw = made[0]
    if which == 0:
        P.check("get-proposal.bootstrap-arguments", kind == "boot" and a[0] == x and a[1] is k and a[2] is pp and kw.get("outlier_proposal_prob") is o and kw.get("parent_tree") == pt,
                "a bootstrap proposal for (data point, this kernel, parent) with the kernel's outlier proposal probability and the parent tree given", kind="post")
    else:
        P.check("get-proposal.cache-key[%s]" % tag, kind == tag and len(a) == 5 and a[0] == x and a[1] is k and a[2] is pp and a[3] is o and a[4] is alpha,
                "the cached constructor is asked with (data point, kernel, parent particle, outlier proposal probability, the CURRENT concentration)", kind="post")
        if has_parent:
            P.check("get-proposal.parent-tree-parked[%s]" % tag, pp.built == pt, "the parent tree is handed over through the parent particle (built_tree) before the lookup", kind="post")


GETP_COVERS = ["get-proposal.%s.%s" % (t, c) for t in ("bootstrap", "semi", "full") for c in ("parent", "first")]


def verify_all(ctx, repo, prop):
    dsl.verify(ctx, repo, dsl.Registry(), prop + ".wiring", KB + ".Kernel.propose_particle", h_propose_particle, expect_covers=["propose_particle"])
    dsl.verify(ctx, repo, dsl.Registry(), prop + ".wiring", [KB + ".ProposalDistribution.__init__", KB + ".ProposalDistribution._set_parent_tree", BOOT + ".BootstrapProposalDistribution.__init__",
                                                            SEMI + ".SemiAdaptedProposalDistribution.__init__", FULL + ".FullyAdaptedProposalDistribution.__init__"], h_proposal_init, expect_covers=INIT_COVERS)
    dsl.verify(ctx, repo, dsl.Registry(), prop + ".wiring", [BOOT + ".BootstrapKernel.get_proposal_distribution", SEMI + ".SemiAdaptedKernel.get_proposal_distribution", FULL + ".FullyAdaptedKernel.get_proposal_distribution"],
               h_get_proposal, expect_covers=GETP_COVERS)
