"""C11 / C20 contracts on phyclone.process_trace.process_trace:
write_map_results (joint-likelihood selection for every chain iteration order, ties, any number of chains and entries),
count_topology / create_topology_dict_from_trace (exact counts, maxima and pointers, by a witness-based inductive invariant),
and the effect order of the three reader commands and the writer (C20: one dump; the load dominates every output).

Witness technique instead of quantifiers: an arbitrary but fixed entry (c*, i*) resp. tree identity t* is chosen before the
loop; the invariant talks about it only; since the witness is arbitrary the universally quantified statement follows."""
import z3

from pyvc import alg, dsl
from pyvc.alg import Num
from pyvc.builtins_model import SymSeq
from pyvc.interp import Model, Obj, PathEnd, PyRaise, SBool, Unsupported, VC

PT = "phyclone.process_trace.process_trace"


# ----------------------------------------------------------------------------------------------------------- models of the trace


def lp(c, i):
    return alg.raw_app("lp", c if isinstance(c, Num) else Num.const(c), i if isinstance(i, Num) else Num.const(i))


def ntr(c):
    return alg.raw_app("ntrace", c if isinstance(c, Num) else Num.const(c), sort="Int")


class Entry(Model):
    def __init__(self, c, i):
        self.c, self.i = c, i

    def getitem(self, I, key):
        if key == "log_p_one":
            return lp(self.c, self.i)
        if key == "tree":
            return TreeDictRef(self.c, self.i)
        raise Unsupported("entry[%r]" % (key,))


class TreeDictRef(Model):
    def __init__(self, c, i):
        self.c, self.i = c, i


class TreeId(Model):
    """a restored tree known by the identity (clades, outliers) it has: Tree.__eq__/__hash__ compare exactly that (C03)"""

    py_classes = ("Tree",)

    def __init__(self, tid, c=None, i=None):
        self.tid, self.c, self.i = tid, c, i

    def eq(self, I, other):
        if isinstance(other, TreeId):
            return I.equal(self.tid, other.tid)
        return False

    def hash(self, I):
        return alg.raw_app("treehash", I.to_num(self.tid), sort="Int")

    def a_multiplicity(self, I):
        return alg.raw_app("mult", I.to_num(self.tid))

    def m_to_newick_string(self, I):
        return ("newick-of", self)


def tree_of(c, i):
    return alg.raw_app("treeid", I_num(c), I_num(i), sort="Int")


def I_num(x):
    return x if isinstance(x, Num) else Num.const(x)


class ChainRes(Model):
    def __init__(self, c):
        self.c = c

    def getitem(self, I, key):
        if key == "trace":
            n = ntr(self.c)
            I.P.assume(I.P.z(n) >= 1, "every chain recorded the post-burn-in state (C15)")
            return SymSeq("trace(%s)" % I_num(self.c).key(), n, lambda i: Entry(self.c, i))
        if key in ("data", "samples"):
            return (key, "of-chain", 0)
        raise Unsupported("chain_result[%r]" % (key,))

    def m_get(self, I, key, default=None):
        return ("clusters-or-none",)


class Results(Model):
    """{chain number -> chain result}: any number of chains stored in ANY order (the order worker processes finished in);
    chain 0 is always present."""

    def __init__(self, I):
        self.n = alg.sym("n_chains", "Int")
        I.P.assume(I.P.z(self.n) >= 1)

    def key(self, j):
        return alg.raw_app("chain_key", j, sort="Int")

    def m_items(self, I):
        def facts(I_, j):
            k = I_.P.z(self.key(j))
            return [k >= 0, k < I_.P.z(self.n)]

        return SymSeq("results.items", self.n, lambda j: (self.key(j), ChainRes(self.key(j))), facts)

    def m_values(self, I):
        return SymSeq("results.values", self.n, lambda j: ChainRes(self.key(j)))

    def getitem(self, I, key):
        k = I.P.z(I.to_num(key))
        I.P.check("chain-key-present[%s]" % I.site(None), z3.And(k >= 0, k < I.P.z(self.n)), "results[%r]: chain numbers are 0..n_chains-1" % (key,))
        return ChainRes(I.to_num(key) if not isinstance(key, int) else key)


class Effects:
    def __init__(self):
        self.log = []


class FileCtx(Model):
    def __init__(self, fx, path, mode):
        self.fx, self.path, self.mode = fx, path, mode

    def m___enter__(self, I):
        self.fx.log.append(("open", self.path, self.mode))
        return self

    def m___exit__(self, I, *a):
        self.fx.log.append(("close", self.path))


class GzipMod(Model):
    def __init__(self, fx):
        self.fx = fx

    def m_GzipFile(self, I, path, mode="rb"):
        return FileCtx(self.fx, path, mode)


class PickleMod(Model):
    def __init__(self, fx, results):
        self.fx, self.results = fx, results

    def m_load(self, I, fh):
        self.fx.log.append(("pickle.load", fh.path, tuple(I.P.effects[-1:]) if I.P.effects and I.P.effects[-1][0] == "try" else None))
        return self.results

    def m_dump(self, I, obj, fh):
        self.fx.log.append(("pickle.dump", obj, fh.path))


def map_registry(fx, results):
    r = dsl.Registry()
    r.globals_override["gzip"] = GzipMod(fx)
    r.globals_override["pickle"] = PickleMod(fx, results)

    def from_dict(I, args, kwargs, node):
        d = args[-1]
        return TreeId(alg.raw_app("treeid", I_num(d.c), I_num(d.i), sort="Int"), d.c, d.i)

    r.call_contracts["phyclone.tree.tree.Tree.from_dict"] = from_dict

    def clone_table(I, args, kwargs, node):
        fx.log.append(("get_clone_table", args[2]))
        return ("table-of", args[2])

    def outputs(I, args, kwargs, node):
        fx.log.append(("write-outputs", args[0], args[1], args[2], args[3]))

    r.call_contracts[PT + ".get_clone_table"] = clone_table
    r.call_contracts[PT + "._create_results_output_files"] = outputs
    r.assumed += ["gzip.GzipFile / pickle.load return the dumped {chain: result} mapping (round trip axiom)", "Tree.from_dict restores the entry's tree (C15)",
                  "get_clone_table / _create_results_output_files by their contracts (C12)"]
    return r


def h_map(I, fi):
    P = I.P
    fx = I.registry.fx
    results = Results(I)
    I.registry.globals_override["pickle"].results = results
    del fx.log[:]
    # witness entry (c*, i*): an arbitrary entry of the trace
    cs, is_ = alg.sym("c_star", "Int"), alg.sym("i_star", "Int")
    P.assume(z3.And(P.z(cs) >= 0, P.z(cs) < P.z(results.n), P.z(is_) >= 0, P.z(is_) < P.z(ntr(cs))))
    state = {}

    def inv(fr, seen):
        """seen* -> map_val >= lp*;  pointer: nothing selected yet (map_val == -inf, pointer (0,0)) or a valid entry attaining map_val"""
        mv, mi, cn = fr.vars["map_val"], fr.vars["map_iter"], fr.vars["chain_num"]
        if isinstance(mv, float) and mv == float("-inf"):
            return z3.And(z3.Not(seen), P.z(I.to_num(mi)) == 0, P.z(I.to_num(cn)) == 0)
        zc, zi = P.z(I.to_num(cn)), P.z(I.to_num(mi))
        return z3.And(z3.Implies(seen, P.z(I.to_num(mv)) >= P.z(lp(cs, is_))), zc >= 0, zc < P.z(results.n), zi >= 0, zi < P.z(ntr(I.to_num(cn))),
                      P.z(lp(I.to_num(cn), I.to_num(mi))) == P.z(I.to_num(mv)))

    def havoc(fr, fresh):
        if fresh:
            fr.vars["map_val"] = float("-inf")
            fr.vars["map_iter"], fr.vars["chain_num"] = 0, 0
            return z3.BoolVal(False)
        fr.vars["map_val"] = alg.sym(P.fresh_name("map_val"))
        fr.vars["map_iter"] = alg.sym(P.fresh_name("map_iter"), "Int")
        fr.vars["chain_num"] = alg.sym(P.fresh_name("chain_num"), "Int")
        return z3.Bool(P.fresh_name("seen_star"))

    def loop(I_, node, fr):
        import ast

        P.check("map.inv-on-entry", inv(fr, z3.BoolVal(False)), "before the loops nothing is selected", kind="post")
        inner = [st for st in node.body if isinstance(st, ast.For)]
        if len(inner) != 1:
            raise Unsupported("write_map_results: expected one loop over the entries of a chain inside the loop over chains")
        mode = P.decide(2)
        if mode == 0:
            # one execution of the innermost body from an arbitrary invariant state, on an arbitrary entry (c, i)
            fresh = P.decide(2) == 1
            seen = havoc(fr, fresh)
            P.assume(inv(fr, seen))
            items = I_.eval(node.iter, fr)
            # the loops must range over EVERY chain and EVERY entry (the after-loop state assumes the witness has been processed)
            P.check("map.iterates-all-chains", dsl.conj(isinstance(items, SymSeq) and not items.tail and str(items.key) == "results.items", P.z(items.length) == P.z(results.n)),
                    "the outer loop ranges over all items of the results mapping", kind="post")
            j = items.fresh_index(I_, "chain")
            I_.assign_target(node.target, items.at(I_, j), fr)
            seq = I_.eval(inner[0].iter, fr)  # enumerate(chain_results["trace"])
            ck = I_.to_num(fr.vars[node.target.elts[0].id])
            e = seq.fresh_index(I_, "entry")
            elem = seq.at(I_, e)
            P.check("map.iterates-all-entries", dsl.conj(isinstance(seq, SymSeq) and not seq.tail and isinstance(elem, tuple) and len(elem) == 2
                    and I_.equal(elem[0], e) is True and isinstance(elem[1], Entry) and I_.equal(elem[1].i, e) is True and I_.equal(elem[1].c, ck) is True, P.z(seq.length) == P.z(ntr(ck))),
                    "the inner loop ranges over all entries of the chain, each paired with its own position", kind="post")
            I_.assign_target(inner[0].target, elem, fr)
            dsl.cover(I_, "map.step")
            I_.exec_block(inner[0].body, fr)
            c = I_.to_num(fr.vars[node.target.elts[0].id])
            seen_after = z3.Or(seen, z3.And(P.z(c) == P.z(cs), P.z(e) == P.z(is_)))
            P.check("map.inv-preserved", inv(fr, seen_after), "processing one more entry keeps: selected entry attains map_val, map_val >= every processed entry", kind="post")
            raise PathEnd()
        # after both loops every entry has been processed, in particular the witness
        fresh_impossible = True
        seen = havoc(fr, False)
        P.assume(z3.And(inv(fr, seen), seen))
        dsl.cover(I_, "map.after")

    I.registry.loop_invariants[(fi.qualname, 0)] = loop

    def enum_elem(I_, seq):
        return seq

    out = I.call_function(fi, [("in-file",), ("out-table",), ("out-tree",)], {}, force_inline=True)
    # reached only on the after-loop path
    sel = [e for e in fx.log if e[0] == "get_clone_table"]
    P.check("map.one-table", len(sel) == 1 and isinstance(sel[0][1], TreeId), "one results table is built, for a tree restored from the trace", kind="post")
    t = sel[0][1]
    P.check("map.selected-entry-is-maximal", P.z(lp(I_num(t.c), I_num(t.i))) >= P.z(lp(cs, is_)),
            "the returned tree is an entry whose recorded log_p_one is >= that of an arbitrary entry of an arbitrary chain, whatever the chain order", kind="post")
    w = [e for e in fx.log if e[0] == "write-outputs"]
    P.check("map.outputs-of-selected-tree", len(w) == 1 and w[0][4] is t and w[0][3] == ("table-of", t), "table and Newick tree written are those of the selected tree", kind="post")
    names = [e[0] for e in fx.log]
    P.check("C20.map.load-dominates-outputs", names[:3] == ["open", "pickle.load", "close"] and names.index("write-outputs") > names.index("pickle.load") and fx.log[1][2] is None,
            "the first effect is the (un-guarded) pickle.load of the gzip stream; outputs are written only after it returned", kind="post")


class EnumSeq:
    pass


# ----------------------------------------------------------------------------------------------------------- count_topology


def h_count_topology(I, fi):
    """one call of count_topology on a dictionary abstracted at an arbitrary tree identity t*"""
    P = I.P
    t_star = TreeId(alg.sym("t_star", "Int"))
    present = P.decide(2) == 1
    same = P.decide(2) == 1
    dsl.cover(I, ("present" if present else "absent") + "," + ("same" if same else "other"))
    cnt, mx, it0, ch0 = alg.sym("cnt", "Int"), alg.sym("max_star"), alg.sym("iter_star", "Int"), alg.sym("chain_star", "Int")
    P.assume(P.z(cnt) >= 1)
    topologies = {}
    rec = None
    if present:
        rec = {"topology": t_star, "count": cnt, "log_p_joint_max": mx, "iter": it0, "chain_num": ch0, "multiplicity": alg.sym("m0"), "log_multiplicity": alg.sym("lm0")}
        topologies[t_star] = rec
    x_top = TreeId(t_star.tid) if same else TreeId(alg.sym("t_other", "Int"))
    if not same:
        P.assume(P.z(x_top.tid) != P.z(t_star.tid))
    c, i = alg.sym("c", "Int"), alg.sym("i", "Int")
    x = Entry(c, i)
    I.call_function(fi, [topologies, x, i, x_top, c], {}, force_inline=True)
    score = lp(c, i)
    if same:
        r = I.dict_get(topologies, t_star)
        if present:
            greater = not P.feasible(P.z(score) <= P.z(mx))
            P.check("count.incremented", P.z(I.to_num(r["count"])) == P.z(cnt + 1), "count of the entry's tree goes up by exactly one", kind="post")
            P.check("count.max-updated", z3.And(P.z(I.to_num(r["log_p_joint_max"])) >= P.z(mx), P.z(I.to_num(r["log_p_joint_max"])) >= P.z(score),
                                                z3.Or(P.z(I.to_num(r["log_p_joint_max"])) == P.z(mx), P.z(I.to_num(r["log_p_joint_max"])) == P.z(score))),
                    "stored score = max(old score, this entry's log_p_one)", kind="post")
            P.check("count.pointer-attains-max",
                    z3.Or(z3.And(P.z(I.to_num(r["iter"])) == P.z(i), P.z(I.to_num(r["chain_num"])) == P.z(c), P.z(I.to_num(r["log_p_joint_max"])) == P.z(score)),
                          z3.And(P.z(I.to_num(r["iter"])) == P.z(it0), P.z(I.to_num(r["chain_num"])) == P.z(ch0), P.z(I.to_num(r["log_p_joint_max"])) == P.z(mx))),
                    "the (iter, chain) pointer moves to this entry exactly when it sets a new maximum, else stays", kind="post")
        else:
            P.check("count.first-record", z3.And(P.z(I.to_num(r["count"])) == 1, P.z(I.to_num(r["log_p_joint_max"])) == P.z(score), P.z(I.to_num(r["iter"])) == P.z(i),
                                                 P.z(I.to_num(r["chain_num"])) == P.z(c)), "a new tree is recorded with count 1, this entry's score and pointer", kind="post")
            P.check("count.keyed-by-tree-identity", I.equal(r["topology"], x_top) is True, "the record belongs to the entry's tree", kind="post")
    else:
        if present:
            r = I.dict_get(topologies, t_star)
            P.check("count.frame-other-trees-untouched", r is rec and all(r[k] is v for k, v in (("count", cnt), ("log_p_joint_max", mx), ("iter", it0), ("chain_num", ch0))),
                    "records of other trees are not modified", kind="post")
        else:
            has = I.truth(I.contains(topologies, t_star))
            P.check("count.frame-no-spurious-record", z3.Not(has.e) if isinstance(has, SBool) else (not has), "no record appears for a tree that is not the entry's", kind="post")


COUNT_COVERS = ["present,same", "present,other", "absent,same", "absent,other"]


def h_topology_dict(I, fi):
    """create_topology_dict_from_trace: every entry of every chain is restored with Tree.from_dict and counted exactly once,
    with its own index and chain number (independent-iterations rule: the body only calls count_topology)"""
    P = I.P
    calls = I.registry.calls
    del calls[:]
    results = Results(I)
    out = I.call_function(fi, [results], {}, force_inline=True)
    P.check("topology-dict.one-count-per-entry", len(calls) == 1 and len(calls[0][5]) == 2, "count_topology is called once per (chain, entry) pair (generic iteration of both loops)", kind="post")
    topologies, x, i, x_top, chain_num, gen = calls[0]
    P.check("topology-dict.arguments", isinstance(x, Entry) and I.equal(x.i, i) is True and I.equal(x.c, chain_num) is True and isinstance(x_top, TreeId)
            and I.equal(x_top.c, chain_num) is True and I.equal(x_top.i, i) is True,
            "the entry is counted under the tree restored from that very entry, with its position in its chain and its chain number", kind="post")
    P.check("topology-dict.returns-the-dictionary", out is topologies, "the dictionary that was filled is returned", kind="post")
    dsl.cover(I, "topology-dict")


def topology_registry(calls):
    fx = Effects()
    r = map_registry(fx, None)

    def count(I, args, kwargs, node):
        a = list(args) + [kwargs.get("chain_num", 0)] if len(args) < 5 else list(args)
        calls.append(tuple(a[:5]) + (list(I.P.ghost.get("generic_indices", [])),))

    r.call_contracts[PT + ".count_topology"] = count
    r.generic_loops.add(PT + ".create_topology_dict_from_trace")
    r.assumed += ["count_topology by its contract", "independent-iterations rule for the two loops of create_topology_dict_from_trace (the body writes only through count_topology)"]
    return r


# ----------------------------------------------------------------------------------------------------------- C20 writer


def h_writer(I, fi):
    P = I.P
    fx = I.registry.fx
    del fx.log[:]
    results = Results(I)
    I.call_function(fi, [None, ("out-file",), results], {}, force_inline=True)
    names = [e[0] for e in fx.log]
    P.check("C20.writer.single-dump", names == ["open", "pickle.dump", "close"] and fx.log[1][1] is results and fx.log[0][2] == "wb" and fx.log[0][1] == ("out-file",),
            "exactly one gzip stream is opened for writing and the whole {chain: result} mapping is dumped into it once", kind="post")
    dsl.cover(I, "writer")
