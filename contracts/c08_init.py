"""C08: the constructors of the adapted proposals establish the class invariants INV1-INV3 that the sample / log_p contracts
(c08_adapted.py) assume, and enumerate the complete candidate set, for any number R of top-level clones of the parent:

  _get_existing_node_trees (semi, full)  one candidate per top-level clone r of the parent: copy(parent) + data point on r
  _get_new_node_trees      (full)        one candidate per subset S of the top-level clones: copy(parent) + new clone over S
                                         (sizes 0..R, every r-subset once: itertools.combinations contract)
  _get_outlier_tree        (semi, full)  copy(parent) (or an empty tree) + data point among the outliers
  _set_log_p_dist/_set_q_dist (semi)     INV1: _log_p = {c_i: log_p(c_i) - log sum_j exp log_p(c_j)}, _q_dist[i] = exp(_log_p[c_i]), sum = 1
  _init_dist (semi)                      candidates = existing ++ [outlier if o > 0] ++ [single-clone tree if the parent has no clone];
                                         INV2 (stored candidates label the point with a parent clone or -1), INV3
  _init_dist (full)                      _log_p = dict(zip(C, log_normalize(log_p of C))) with C = existing ++ new ++ [outlier if o > 0]  (INV1)
"""
import z3

from pyvc import alg, dsl
from pyvc.alg import Num
from pyvc.builtins_model import SymSeq
from pyvc.interp import Model, Obj, PathEnd, Unsupported
from contracts.models import AbsTree, BaseTree, DataPointModel, ParentParticle
from contracts.c08_adapted import SEMI, FULL, Holder, cand_seq

TD, PD = ("tree_dist",), ("perm_dist",)


class Built(Model):
    """TreeHolder(tree, tree_dist, perm_dist) as a record of what it was built from"""

    py_classes = ("TreeHolder",)

    def __init__(self, tree, td, pd):
        self.tree, self.td, self.pd = tree, td, pd

    def a_log_p(self, I):
        return alg.raw_app("lp_built", Num.const(id(self) % 100003))


def base_registry():
    r = dsl.Registry()
    r.class_models["TreeHolder"] = lambda I, tree, td, pd: Built(tree, td, pd)
    r.class_models["Tree"] = lambda I, grid_size=None: AbsTree(None)
    r.assumed += ["Layer-1 contracts of Tree.copy / add_data_point_to_node / add_data_point_to_outliers / create_root_node (AbsTree model; C06/C07)",
                  "itertools.combinations(seq, r) yields every r-element subset of seq exactly once (library)",
                  "TreeHolder(tree, tree_dist, perm_dist) holds log_p of that tree (C03 contracts); distinct candidates are distinct dictionary keys (A-DISTINCT)"]
    return r


def proposal_obj(I, cls, has_parent):
    P = I.P
    dp = DataPointModel("dp")
    self = Obj(cls)
    base = None
    self.fields.update({"data_point": dp, "tree_dist": TD, "perm_dist": PD, "outlier_proposal_prob": alg.sym("o"), "_rng": ("rng",)})
    if has_parent:
        base = BaseTree(I, "T")
        self.fields["parent_particle"] = ParentParticle(base)
        self.fields["parent_tree"] = AbsTree(base)
    else:
        self.fields["parent_particle"] = None
        self.fields["parent_tree"] = None
    return self, dp, base


def ok_built(h, base, kind):
    return isinstance(h, Built) and h.td is TD and h.pd is PD and isinstance(h.tree, AbsTree) and h.tree.base is base and h.tree.placement is not None and h.tree.placement[0] == kind


def h_existing(I, fi):
    P = I.P
    has_parent = P.decide(2) == 1
    self, dp, base = proposal_obj(I, fi.cls, has_parent)
    I.registry.generic_loops.add(fi.qualname)
    out = I.call_function(fi, [self], {}, force_inline=True)
    if not has_parent:
        dsl.cover(I, "existing.no-parent")
        P.check("existing.none-without-parent", isinstance(out, list) and out == [], "no parent: no existing clone to add to", kind="post")
        return
    gens = P.ghost.get("generic_indices", [])
    dsl.cover(I, "existing.parent")
    if not gens:
        P.check("existing.none-without-top-level-clones", isinstance(out, list) and out == [] and not P.feasible(P.z(base.R) != 0), "a parent without top-level clones has no existing-clone candidate", kind="post")
        return
    P.check("existing.one-pass-over-top-level-clones", len(gens) == 1 and isinstance(out, list) and len(out) == 1, "one candidate per top-level clone of the parent (arbitrary clone r)", kind="post")
    if len(gens) != 1 or not isinstance(out, list) or len(out) != 1:
        return
    r = alg.raw_app("root_T", gens[0], sort="Int")
    h = out[0]
    ok = ok_built(h, base, "exist") and (I.to_num(h.tree.placement[1]) - r).is_zero() and h.tree.dp is dp and h.tree is not self.fields["parent_tree"]
    P.check("existing.candidate", ok, "the candidate for clone r is a copy of the parent tree with the data point added to r (the parent tree itself is not modified)", kind="post")
    P.check("existing.parent-untouched", self.fields["parent_tree"].placement is None, "the parent tree is left as it was", kind="post")


def h_outlier(I, fi):
    P = I.P
    has_parent = P.decide(2) == 1
    self, dp, base = proposal_obj(I, fi.cls, has_parent)
    out = I.call_function(fi, [self], {}, force_inline=True)
    h = out[0] if isinstance(out, list) and len(out) == 1 else out  # the fully adapted variant returns a one-element list
    dsl.cover(I, "outlier.parent" if has_parent else "outlier.no-parent")
    ok = ok_built(h, base, "outlier") and h.tree.dp is dp and h.tree is not self.fields["parent_tree"]
    P.check("outlier.candidate", ok, "a copy of the parent tree (an empty tree without parent) with the data point among the outliers", kind="post")


class Subsets(SymSeq):
    pass


def h_new_node_trees(I, fi):
    from contracts.models import SymSubset
    P = I.P
    has_parent = P.decide(2) == 1
    self, dp, base = proposal_obj(I, fi.cls, has_parent)
    if not has_parent:
        out = I.call_function(fi, [self], {}, force_inline=True)
        dsl.cover(I, "new.no-parent")
        ok = isinstance(out, list) and len(out) == 1 and ok_built(out[0], None, "new") and out[0].tree.dp is dp and len(out[0].tree.placement[2]) == 0
        P.check("new.single-clone-tree", ok, "no parent: the only candidate is the tree with one clone holding the data point", kind="post")
        return
    calls = []

    def combinations(I_, seq, r_):
        calls.append((seq, r_))
        cnt = alg.raw_app("binom", base.R, I_.to_num(r_), sort="Int")
        I_.P.assume(I_.P.z(cnt) >= 1)
        return Subsets("combinations(%s)" % I_.to_num(r_).key(), cnt, lambda t: SymSubset(seq, I_.to_num(r_), ("subset", I_.to_num(r_).key(), I_.to_num(t).key())))

    class IT(Model):
        def m_combinations(self, I_, seq, r_):
            return combinations(I_, seq, r_)

    I.registry.globals_override["itertools"] = IT()
    I.registry.generic_loops.add(fi.qualname)
    st = {}

    def outer(I_, node, fr):
        seq = I_.eval(node.iter, fr)
        ok = dsl.conj(isinstance(seq, SymSeq) and not seq.tail, P.z(seq.length) == P.z(base.R + 1), P.z(I_.to_num(seq.core_at(I_, Num.const(0)))) == 0)
        P.check("new.sizes-0-to-R", ok, "subset sizes range over 0 .. R (R = number of top-level clones of the parent)", kind="post")
        if not isinstance(seq, SymSeq):
            raise PathEnd()
        seq.for_loop(I_, node, fr)  # independent-iterations rule on the real range

    I.registry.loop_invariants[(fi.qualname, 0)] = outer
    out = I.call_function(fi, [self], {}, force_inline=True)
    dsl.cover(I, "new.parent")
    gens = P.ghost.get("generic_indices", [])
    P.check("new.two-nested-loops", len(gens) == 2 and len(calls) == 1 and isinstance(out, list) and len(out) == 1, "sizes x subsets of that size (arbitrary size r, arbitrary r-subset S)", kind="post")
    if len(gens) != 2 or len(calls) != 1 or not isinstance(out, list) or len(out) != 1:
        return
    seq, r_ = calls[0]
    P.check("new.subsets-of-the-top-level-clones", isinstance(seq, SymSeq) and seq.key == base.roots_seq(I).key and (I.to_num(r_) - gens[0]).is_zero(),
            "the subsets are the r-element subsets of the parent's top-level clones", kind="post")
    h = out[0]
    ok = ok_built(h, base, "new") and h.tree.dp is dp and isinstance(h.tree.placement[2], SymSubset) and h.tree.placement[2].of is seq and h.tree is not self.fields["parent_tree"]
    P.check("new.candidate", ok, "the candidate for S is a copy of the parent tree with a new clone holding the data point whose children are exactly S", kind="post")
    P.check("new.parent-untouched", self.fields["parent_tree"].placement is None, "the parent tree is left as it was", kind="post")


def h_set_log_p_dist(I, fi, fi_q=None):
    """SemiAdaptedProposalDistribution._set_log_p_dist (with _set_q_dist inlined): INV1"""
    P = I.P
    self = Obj(fi.cls)
    dp = DataPointModel("dp")
    M = alg.sym("M", "Int")
    P.assume(P.z(M) >= 1)
    cands = cand_seq("c", M, dp)
    b = alg.bound_index()
    Z = alg.bigsum("", M, alg.sexp(alg.raw_app("lp_c", b)))

    def log_normalize(I_, args, kwargs, node):
        x = args[0]
        if not isinstance(x, SymSeq):
            raise Unsupported("log_normalize of %s" % type(x).__name__)
        return x.map(I_, "lognorm(%s)" % x.key, lambda v: I_.to_num(v) - alg.slog(alg.bigsum("", x.core_len, alg.sexp(I_.to_num(x.core_at(I_, b))), bound=b)))

    I.registry.call_contracts["phyclone.utils.math.log_normalize"] = log_normalize
    pairs = []

    def mkdict(I_, z=None):
        pairs.append(z)
        return ("dict-of", z)

    I.registry.globals_override["dict"] = mkdict
    I.call_function(fi, [self, cands], {}, force_inline=True)
    dsl.cover(I, "set-dist")
    i = alg.sym("i", "Int")
    P.assume(z3.And(P.z(i) >= 0, P.z(i) < P.z(M)))
    want = alg.raw_app("lp_c", i) - alg.slog(Z)
    P.check("inv1.curr-trees", self.fields.get("_curr_trees") is cands, "_curr_trees is the candidate list, in order", kind="post")
    z = pairs[0] if pairs else None
    ok = isinstance(z, SymSeq) and P.z(z.length) == P.z(M)
    P.check("inv1.dict-over-all-candidates", ok, "_log_p has one entry per candidate", kind="post")
    if not isinstance(z, SymSeq):
        return
    k_i, v_i = z.core_at(I, i)
    P.check("inv1.log_p-entry", isinstance(k_i, Holder) and k_i.fam == "c" and (I.to_num(k_i.i) - i).is_zero() and (alg.is_identically_zero(I.to_num(v_i) - want) or P.z(I.to_num(v_i)) == P.z(want)),
            "_log_p[c_i] = log_p(c_i) - log sum_j exp log_p(c_j)", kind="post")
    q = self.fields.get("_q_dist")
    P.check("inv1.q-dist", dsl.conj(isinstance(q, SymSeq), P.z(q.length) == P.z(M), P.z(I.to_num(q.core_at(I, i))) == P.z(alg.sexp(want))), "_q_dist[i] = exp(_log_p[c_i])", kind="post")
    from pyvc.builtins_model import seq_sum

    P.check("inv1.normalised", isinstance(q, SymSeq) and P.z(I.to_num(seq_sum(I, q))) == 1, "sum_i _q_dist[i] = 1", kind="post")


def h_semi_init(I, fi):
    P = I.P
    has_parent = P.decide(2) == 1
    self, dp, base = proposal_obj(I, fi.cls, has_parent)
    o = self.fields["outlier_proposal_prob"]
    P.assume(P.z(o) >= 0)
    self.fields["parent_is_empty_tree"] = False  # as set by __init__ just before _init_dist
    existing = SymSeq("existing", base.R if has_parent else Num.const(0), lambda i: Holder("ex", i, dp))
    outl = Holder("out", Num.const(0), dp)
    got = []
    I.registry.call_contracts[SEMI + "._get_existing_node_trees"] = lambda I_, a, k, n: SymSeq("existing", existing.core_len, existing.elem)
    I.registry.call_contracts[SEMI + "._get_outlier_tree"] = lambda I_, a, k, n: outl
    I.registry.call_contracts[SEMI + "._set_log_p_dist"] = lambda I_, a, k, n: got.append(a[1])
    I.call_function(fi, [self], {}, force_inline=True)
    trees = got[0] if len(got) == 1 else None
    P.check("init.sets-the-distribution-once", isinstance(trees, SymSeq) and P.z(trees.core_len) == P.z(existing.core_len), "_set_log_p_dist is called once with the existing-clone candidates first", kind="post")
    if not isinstance(trees, SymSeq):
        return
    tail = list(trees.tail)
    with_out = bool(tail) and tail[0] is outl
    if with_out:
        tail = tail[1:]
        dsl.cover(I, "init.with-outlier")
    else:
        dsl.cover(I, "init.without-outlier")
    P.check("init.outlier-candidate-iff-enabled", z3.BoolVal(with_out) == (P.z(o) > 0), "the outlier candidate is stored iff outlier proposals are enabled", kind="post")
    is_empty = self.fields["parent_is_empty_tree"]
    if has_parent:
        P.check("inv3.empty-flag", z3.BoolVal(bool(is_empty)) == (P.z(base.R) == 0), "parent_is_empty_tree <=> the parent has no top-level clone", kind="post")
    else:
        P.check("inv3.empty-flag", is_empty is True, "no parent: parent_is_empty_tree", kind="post")
    if is_empty:
        dsl.cover(I, "init.empty")
        ok = len(tail) == 1 and ok_built(tail[0], base, "new") and tail[0].tree.dp is dp and len(tail[0].tree.placement[2]) == 0 and tail[0].tree is not self.fields.get("parent_tree")
        P.check("init.single-clone-candidate", ok, "without top-level clones the candidates end with parent + one new clone holding the data point", kind="post")
    else:
        dsl.cover(I, "init.clones")
        P.check("init.no-other-candidate", len(tail) == 0, "with top-level clones the stored candidates are the existing-clone trees (+ outlier tree)", kind="post")
        c = self.fields.get("_cached_log_old_num_roots")
        P.check("inv3.log-old-num-roots", isinstance(c, Num) and (alg.is_identically_zero(c - alg.slog(base.R + 1)) or P.z(c) == P.z(alg.slog(base.R + 1))), "_cached_log_old_num_roots = log(R + 1)", kind="post")
    P.check("init.parent-tree-released", self.fields.get("parent_tree") is None, "the reference to the parent tree is dropped", kind="post")


SEMI_INIT_COVERS = ["init.with-outlier", "init.without-outlier", "init.empty", "init.clones"]


class Concat(Model):
    """list concatenation of symbolic sequences / lists, kept as its parts"""

    def __init__(self, parts):
        self.parts = list(parts)

    def binop(self, I, op, other, swapped):
        import ast as _ast
        if not isinstance(op, _ast.Add):
            raise Unsupported("operation on a concatenation")
        o = other.parts if isinstance(other, Concat) else [other]
        return Concat(o + self.parts if swapped else self.parts + o)

    def m_extend(self, I, xs):
        self.parts.append(xs)

    def comprehension(self, I, node, gen, fr):
        return Mapped(self, ("comprehension", __import__("ast").unparse(node.elt), gen.target.id if hasattr(gen.target, "id") else "?", len(gen.ifs)))


class Mapped(Model):
    def __init__(self, of, how):
        self.of, self.how = of, how


class Part(SymSeq):
    def binop(self, I, op, other, swapped):
        return Concat([self]).binop(I, op, other, swapped)


def h_full_init(I, fi):
    P = I.P
    has_parent = P.decide(2) == 1
    self, dp, base = proposal_obj(I, fi.cls, has_parent)
    o = self.fields["outlier_proposal_prob"]
    P.assume(P.z(o) >= 0)
    ex = Part("existing", alg.sym("n_existing", "Int"), lambda i: Holder("ex", i, dp))
    new = Part("new", alg.sym("n_new", "Int"), lambda i: Holder("new", i, dp))
    outl = [Holder("out", Num.const(0), dp)]
    I.registry.call_contracts[FULL + "._get_existing_node_trees"] = lambda I_, a, k, n: ex
    I.registry.call_contracts[FULL + "._get_new_node_trees"] = lambda I_, a, k, n: new
    I.registry.call_contracts[FULL + "._get_outlier_tree"] = lambda I_, a, k, n: outl
    I.registry.call_contracts["phyclone.utils.math.log_normalize"] = lambda I_, a, k, n: ("log_normalize", a[0])
    I.registry.globals_override["np"] = NpArrayOnly()
    I.registry.globals_override["zip"] = lambda I_, a, b: ("zip", a, b)
    I.registry.globals_override["dict"] = lambda I_, z=None: ("dict", z)
    I.call_function(fi, [self], {}, force_inline=True)
    d = self.fields.get("_log_p")
    ok = isinstance(d, tuple) and d[0] == "dict" and isinstance(d[1], tuple) and d[1][0] == "zip"
    P.check("full-init.dict-of-zip", ok, "_log_p = dict(zip(candidates, normalised log-probabilities))", kind="post")
    if not ok:
        return
    keys, vals = d[1][1], d[1][2]
    parts = keys.parts if isinstance(keys, Concat) else None
    with_out = parts is not None and len(parts) == 3 and parts[2] is outl
    dsl.cover(I, "full-init.with-outlier" if with_out else "full-init.without-outlier")
    P.check("full-init.candidates", parts is not None and parts[0] is ex and parts[1] is new and len(parts) == (3 if with_out else 2), "candidates = existing-clone trees ++ new-clone trees (++ outlier tree)", kind="post")
    P.check("full-init.outlier-candidate-iff-enabled", z3.BoolVal(with_out) == (P.z(o) > 0), "the outlier candidate is stored iff outlier proposals are enabled", kind="post")
    okv = isinstance(vals, tuple) and vals[0] == "log_normalize" and isinstance(vals[1], Mapped) and vals[1].of is keys and vals[1].how == ("comprehension", "x.log_p", "x", 0)
    P.check("inv1.full-values", okv, "the values are log_normalize([x.log_p for x in candidates]) over the same candidates in the same order (normalised: log_normalize contract)", kind="post")
    P.check("full-init.parent-tree-released", self.fields.get("parent_tree") is None, "the reference to the parent tree is dropped", kind="post")


class NpArrayOnly(Model):
    def m_array(self, I, x):
        return x


def verify_all(ctx, repo, prop="C08"):
    R = base_registry
    for cls, tag in ((SEMI, "semi"), (FULL, "full")):
        dsl.verify(ctx, repo, R(), prop + ".%s.init" % tag, cls + "._get_existing_node_trees", h_existing, expect_covers=["existing.no-parent", "existing.parent"])
        dsl.verify(ctx, repo, R(), prop + ".%s.init" % tag, cls + "._get_outlier_tree", h_outlier, expect_covers=["outlier.parent", "outlier.no-parent"])
    dsl.verify(ctx, repo, R(), prop + ".full.init", FULL + "._get_new_node_trees", h_new_node_trees, expect_covers=["new.no-parent", "new.parent"])
    dsl.verify(ctx, repo, R(), prop + ".semi.init", [SEMI + "._set_log_p_dist", SEMI + "._set_q_dist"], h_set_log_p_dist, expect_covers=["set-dist"])
    dsl.verify(ctx, repo, R(), prop + ".semi.init", SEMI + "._init_dist", h_semi_init, expect_covers=SEMI_INIT_COVERS)
    dsl.verify(ctx, repo, R(), prop + ".full.init", FULL + "._init_dist", h_full_init, expect_covers=["full-init.with-outlier", "full-init.without-outlier"])
    ctx.trust(*R().assumed)
