"""C03 (equality / hash clause), shared with C14 and C16: contracts on Tree.get_clades / __eq__ / __hash__ and the clade visitor
(phyclone/tree/visitors.py:GraphToCladesVisitor), for any tree shape.

  discover_vertex(v)   the set of v starts as the indices of v's own data points (a new set)
  tree_edge(p, c)      records parent(c) = p by name
  finish_vertex(v)     non-root: the (by now complete) set of v is merged into its parent's set and added, frozen, to the clades; root: nothing
  => by induction over the finish order (rustworkx dfs_search contract, trusted): clade(v) = own indices U clades of the children, one clade per clone
  get_clades()         one search from the dummy root with a fresh visitor; frozenset of its clades
  __eq__ / __hash__    both are taken from the same key (get_clades(), frozenset(outliers)): equal trees have equal hashes, and the key does not
                       mention clone names, construction history or cached vectors"""
from pyvc import alg, dsl
from pyvc.alg import Num
from pyvc.interp import Model, Obj, Unsupported

VIS = "phyclone.tree.visitors.GraphToCladesVisitor"
TR = "phyclone.tree.tree.Tree"
ROOT = "root"


class Rev(Model):
    def __init__(self, ri):
        self.ri = ri

    def getitem(self, I, idx):
        idx = I.to_num(idx)
        if (idx - self.ri).is_zero():
            return ROOT
        return alg.raw_app("name_of", idx, sort="Int")


def key_of(k):
    return k if isinstance(k, str) else k.key()


class SetTok(Model):
    def __init__(self, what, log):
        self.what, self.log = what, log

    def m_update(self, I, other):
        self.log.append(("update", self, other))


class Sets(Model):
    def __init__(self, log):
        self.log, self.cells = log, {}

    def setitem(self, I, k, v):
        self.log.append(("set", "dict_of_sets", k, v))
        self.cells[key_of(k if isinstance(k, str) else I.to_num(k))] = v

    def getitem(self, I, k):
        kk = key_of(k if isinstance(k, str) else I.to_num(k))
        return self.cells.setdefault(kk, SetTok(("set-of", kk), self.log))


class DataLists(Model):
    def getitem(self, I, k):
        return DataList(key_of(k if isinstance(k, str) else I.to_num(k)))


class DataList(Model):
    def __init__(self, node):
        self.node = node

    def set_comprehension(self, I, node, gen, fr):
        from pyvc.interp import Frame
        e = Model()
        e.a_idx = lambda I_: ("idx-of-generic-point",)
        sub = Frame(fr.module, fr.func, fr.cls)
        sub.vars = dict(fr.vars)
        I.assign_target(gen.target, e, sub)
        if gen.ifs:
            raise Unsupported("filtered set comprehension")
        elt = I.eval(node.elt, sub)
        return SetTok(("indices-of-data-of", self.node, elt), None)


def visitor(cls, log):
    ri = alg.sym("root_idx", "Int")
    v = Obj(cls)

    class Rec(Model):
        def __init__(self, name):
            self.name = name

        def setitem(self, I, k, val):
            log.append(("set", self.name, k, val))

        def getitem(self, I, k):
            return alg.raw_app("parent_name", I.to_num(k), sort="Int")

        def m_add(self, I, x):
            log.append(("add", self.name, x))

    v.fields.update({"node_indices_rev": Rev(ri), "root_node_name": ROOT, "data": DataLists(), "dict_of_sets": Sets(log), "child_parent_mapping": Rec("child_parent_mapping"),
                     "clades": Rec("clades")})
    return v, ri


def h_visitor(I, disc_fi, edge_fi, fin_fi):
    P = I.P
    log = []
    v, ri = visitor(disc_fi.cls, log)
    which = P.decide(4)
    x = alg.sym("v", "Int")
    P.assume(P.z(x) != P.z(ri))
    name = alg.raw_app("name_of", x, sort="Int")
    I.registry.globals_override["frozenset"] = lambda I_, s=(): ("frozen", s)
    if which == 0:
        I.call_function(disc_fi, [v, x, alg.sym("time", "Int")], {}, force_inline=True)
        dsl.cover(I, "clade-visitor.discover")
        ok = len(log) == 1 and log[0][:2] == ("set", "dict_of_sets") and (I.to_num(log[0][2]) - name).is_zero() and isinstance(log[0][3], SetTok) \
            and log[0][3].what == ("indices-of-data-of", name.key(), ("idx-of-generic-point",))
        P.check("clade-visitor.discover", ok, "discovering a vertex starts its set as the indices of its own data points", kind="post")
    elif which == 1:
        p = alg.sym("p", "Int")
        P.assume(P.z(p) != P.z(ri))
        I.call_function(edge_fi, [v, (p, x, None)], {}, force_inline=True)
        dsl.cover(I, "clade-visitor.edge")
        ok = len(log) == 1 and log[0][:2] == ("set", "child_parent_mapping") and (I.to_num(log[0][2]) - name).is_zero() and (I.to_num(log[0][3]) - alg.raw_app("name_of", p, sort="Int")).is_zero()
        P.check("clade-visitor.edge", ok, "a tree edge records the child's parent by name", kind="post")
    elif which == 2:
        I.call_function(fin_fi, [v, x, alg.sym("time", "Int")], {}, force_inline=True)
        dsl.cover(I, "clade-visitor.finish-clone")
        own = v.fields["dict_of_sets"].cells.get(name.key())
        par = v.fields["dict_of_sets"].cells.get(alg.raw_app("parent_name", name, sort="Int").key())
        ok = len(log) == 2 and log[0] == ("update", par, own) and log[1] == ("add", "clades", ("frozen", own)) and own is not None and par is not None
        P.check("clade-visitor.finish-clone", ok, "finishing a clone merges its (complete) set into its parent's set and adds it, frozen, to the clades", kind="post")
    else:
        I.call_function(fin_fi, [v, ri, alg.sym("time", "Int")], {}, force_inline=True)
        dsl.cover(I, "clade-visitor.finish-root")
        P.check("clade-visitor.finish-root", not log, "the dummy root contributes no clade", kind="post")


VIS_COVERS = ["clade-visitor.discover", "clade-visitor.edge", "clade-visitor.finish-clone", "clade-visitor.finish-root"]


def h_get_clades(I, fi):
    P = I.P
    t = Obj(fi.cls)
    ri = alg.sym("root_idx", "Int")

    class Idx(Model):
        def getitem(self, I_, k):
            if k != ROOT:
                raise Unsupported("index of %r" % (k,))
            return ri

    g = ("graph",)
    t.fields.update({"_graph": g, "_node_indices": Idx()})
    made, searched = [], []

    class V(Model):
        def __init__(self, tree):
            self.tree = tree

        def a_clades(self, I_):
            return ("clades-of", self)

    I.registry.class_models["GraphToCladesVisitor"] = lambda I_, tree: (made.append(V(tree)), made[-1])[1]

    class Rx(Model):
        def m_dfs_search(self, I_, graph, sources, vis):
            searched.append((graph, sources, vis))

    I.registry.globals_override["rx"] = Rx()
    I.registry.globals_override["frozenset"] = lambda I_, s=(): ("frozen", s)
    out = I.call_function(fi, [t], {}, force_inline=True)
    dsl.cover(I, "get_clades")
    ok = len(made) == 1 and made[0].tree is t and len(searched) == 1 and searched[0][0] is g and isinstance(searched[0][1], list) and len(searched[0][1]) == 1 \
        and (I.to_num(searched[0][1][0]) - ri).is_zero() and searched[0][2] is made[0] and out == ("frozen", ("clades-of", made[0]))
    P.check("tree.get_clades", ok, "one depth-first search from the dummy root with a fresh clade visitor; the frozen set of its clades is returned", kind="post")


def h_eq_hash(I, eq_fi, hash_fi, outliers_fi=None):
    P = I.P
    I.registry.globals_override["frozenset"] = lambda I_, s=(): ("frozen", s)
    hashed = []
    I.registry.globals_override["hash"] = lambda I_, x: (hashed.append(x), ("hash-of", len(hashed)))[1]
    compared = []

    class TreeM(Obj):
        pass

    def mk(tag):
        t = Obj(eq_fi.cls)
        t.tag = tag
        return t

    a, b = mk("a"), mk("b")
    I.registry.call_contracts[TR + ".get_clades"] = lambda I_, ar, k, n: ("clades", ar[0].tag)
    I.registry.call_contracts[TR + ".outliers"] = lambda I_, ar, k, n: ("outliers", ar[0].tag)
    for t in (a, b):
        t.fields["_data"] = OutData(t.tag)
    which = P.decide(2)
    if which == 0:
        out = I.call_function(hash_fi, [a], {}, force_inline=True)
        dsl.cover(I, "tree.hash")
        ok = len(hashed) == 1 and isinstance(hashed[0], tuple) and len(hashed[0]) == 2 and hashed[0][0] == ("clades", "a") and hashed[0][1] == ("frozen", ("outliers", "a")) and out == ("hash-of", 1)
        P.check("tree.hash-of-the-key", ok, "hash(tree) = hash((clades, frozenset(outliers)))", kind="post")
    else:
        import ast as _ast
        seen = []
        orig_equal = I.equal

        def spy(x, y, node=None):
            seen.append((x, y))
            return x == y

        I.equal = spy
        out = I.call_function(eq_fi, [a, b], {}, force_inline=True)
        I.equal = orig_equal
        dsl.cover(I, "tree.eq")
        ka = (("clades", "a"), ("frozen", ("outliers", "a")))
        kb = (("clades", "b"), ("frozen", ("outliers", "b")))
        P.check("tree.eq-compares-the-same-key", (ka, kb) in seen and out is False, "tree == other compares exactly the keys (clades, frozenset(outliers)) of the two trees - the key the hash is taken from", kind="post")


class OutData(Model):
    def __init__(self, tag):
        self.tag = tag

    def getitem(self, I, k):
        if I.equal(k, -1) is not True:
            raise Unsupported("_data[%r]" % (k,))
        return OutList(self.tag)


class OutList(Model):
    def __init__(self, tag):
        self.tag = tag


def verify_all(ctx, repo, prop):
    R = dsl.Registry
    dsl.verify(ctx, repo, R(), prop, [VIS + ".discover_vertex", VIS + ".tree_edge", VIS + ".finish_vertex"], h_visitor, expect_covers=VIS_COVERS)
    dsl.verify(ctx, repo, R(), prop, TR + ".get_clades", h_get_clades, expect_covers=["get_clades"])
    dsl.verify(ctx, repo, R(), prop, [TR + ".__eq__", TR + ".__hash__"], h_eq_hash, expect_covers=["tree.hash", "tree.eq"])
    ctx.trust("rustworkx dfs_search: discover_vertex before and finish_vertex after all descendants, tree_edge once per non-root vertex (library); the induction from the "
              "per-callback contracts to clade(v) = own indices U clades of the children is pen and paper (bounded stand-in compares with an independent enumeration)")
