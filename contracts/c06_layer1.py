"""C06 / C07 contracts at the node level (the part of Layer 1 that does not need a graph model):

 TreeNode.__init__ / add_data_point / remove_data_point / add_data_point_list / __copy__ over the 2-D array model, and the
 pairing in Tree._internal_add_data_point_to_node / remove_data_point_from_node of each node edit with the right starting
 point of the path update:
   add    : log_p += v AND log_r += v on the node  ->  the node itself stays fresh, the path update starts at its PARENT
   remove : log_p -= v only                         ->  the node itself is stale,   the path update starts at the NODE
 (update_node_from_child_r_vals and the convolution recursion are C02's contracts; the graph-level invariants of Tree -
 unique parents, name/index maps, subtree grafting - are covered by the bounded edit-grammar enumeration only.)"""
import z3

from pyvc import alg, dsl
from pyvc.alg import Num
from pyvc.builtins_model import Arr2, SymSeq, SetVal
from pyvc.interp import Model, Obj, PathEnd, PyRaise, Unsupported

TN = "phyclone.tree.tree_node.TreeNode"
TR = "phyclone.tree.tree.Tree"


class DPv(Model):
    py_classes = ("DataPoint",)

    def __init__(self, name, D, G):
        self.name = name
        self.idx = alg.sym("idx_" + name, "Int")
        self.value = Arr2.symbolic("val_" + name, D, G)

    def a_idx(self, I):
        return self.idx

    def a_value(self, I):
        return self.value


def node_obj(I, cls, D, G, has=None):
    n = Obj(cls)
    n.fields.update({"log_p": Arr2.symbolic("logp", D, G), "log_r": Arr2.symbolic("logr", D, G), "node_id": 3, "data_points": SetVal(list(has or []))})
    return n


def dims(I):
    P = I.P
    D, G = alg.sym("D", "Int"), alg.sym("G", "Int")
    P.assume(z3.And(P.z(D) >= 1, P.z(G) >= 1))
    d, k = alg.sym("d", "Int"), alg.sym("k", "Int")
    P.assume(z3.And(P.z(d) >= 0, P.z(d) < P.z(D), P.z(k) >= 0, P.z(k) < P.z(G)))
    return D, G, d, k


def h_node_add_remove(I, add_fi, remove_fi):
    P = I.P
    D, G, d, k = dims(I)
    other = alg.sym("idx_other", "Int")
    dp = DPv("dp", D, G)
    adding = P.decide(2) == 1
    present = not adding  # precondition (established by the callers, C07): a point is added only when absent, removed only when present
    dsl.cover(I, ("add" if adding else "remove") + ("-present" if present else "-absent"))
    P.assume(P.z(other) != P.z(dp.idx))
    node = node_obj(I, add_fi.cls, D, G, has=[other] + ([dp.idx] if present else []))
    lp, lr = node.fields["log_p"], node.fields["log_r"]
    I.registry.allowed_raises[:] = []
    try:
        I.call_function(add_fi if adding else remove_fi, [node, dp], {}, force_inline=True)
    except PyRaise:
        P.check("node.%s.assert-only-on-misuse" % ("add" if adding else "remove"), present if adding else not present,
                "the assertion fires exactly when a point is added twice / removed while absent (callers must exclude that: C07)", kind="post")
        return
    P.ghost["raise_expected"] = True
    P.check("node.%s.precondition" % ("add" if adding else "remove"), (not present) if adding else present, "no assertion on correct use", kind="post")
    v = alg.raw_app("val_dp", d, k)
    sign = 1 if adding else -1
    P.check("node.%s.log_p" % ("add" if adding else "remove"), node.fields["log_p"] is lp and bool(alg.is_identically_zero(I.to_num(lp.at(I, d, k)) - (alg.raw_app("logp", d, k) + sign * v))),
            "log_p is updated in place by +/- the data point's grid", kind="post")
    want_r = alg.raw_app("logr", d, k) + (v if adding else 0)
    P.check("node.%s.log_r" % ("add" if adding else "remove"), node.fields["log_r"] is lr and bool(alg.is_identically_zero(I.to_num(lr.at(I, d, k)) - want_r)),
            "add: log_r += value as well (a fresh node stays fresh); remove: log_r is left untouched (the node must be recomputed by the caller)", kind="post")
    pts = node.fields["data_points"]
    has_dp = I.truth(I.contains(pts.items, dp.idx))
    has_other = I.truth(I.contains(pts.items, other))
    from pyvc.interp import SBool

    def tv(b):
        return b.e if isinstance(b, SBool) else z3.BoolVal(bool(b))

    P.check("node.%s.membership" % ("add" if adding else "remove"), z3.And(tv(has_dp) if adding else z3.Not(tv(has_dp)), tv(has_other)),
            "the node's index set gains / loses exactly this point", kind="post")
    P.check("node.%s.value-not-written" % ("add" if adding else "remove"), dp.value.writes == 0, "the data point's grid is only read", kind="post")


NODE_COVERS = ["add-absent", "remove-present"]


def h_node_init_copy(I, init_fi, copy_fi):
    P = I.P
    D, G, d, k = dims(I)
    prior = alg.sym("log_prior")
    node = Obj(init_fi.cls)
    I.call_function(init_fi, [node, (D, G), prior, 7], {}, force_inline=True)
    lp, lr = node.fields["log_p"], node.fields["log_r"]
    P.check("node.init", isinstance(lp, Arr2) and isinstance(lr, Arr2) and lp is not lr and (I.to_num(lp.at(I, d, k)) - prior).is_zero() and (I.to_num(lr.at(I, d, k)) - prior).is_zero()
            and node.fields["node_id"] == 7, "a new node: log_p = log_r = the grid prior (separate arrays), no data", kind="post")
    c = I.call_function(copy_fi, [node], {}, force_inline=True)
    P.check("node.copy-is-deep", c is not node and c.fields["log_p"] is not lp and c.fields["log_r"] is not lr and c.fields["data_points"] is not node.fields["data_points"]
            and (I.to_num(c.fields["log_p"].at(I, d, k)) - prior).is_zero() and c.fields["node_id"] == 7,
            "copy() shares no array and no index set with the source (in-place edits of one tree cannot reach another)", kind="post")
    dsl.cover(I, "init-copy")


class GraphStub(Model):
    def __init__(self, payload):
        self.payload = payload

    def getitem(self, I, idx):
        return self.payload


class Payload(Model):
    py_classes = ("TreeNode",)

    def __init__(self, log):
        self.log = log

    def m_add_data_point(self, I, dp):
        self.log.append(("node.add", dp))

    def m_remove_data_point(self, I, dp):
        self.log.append(("node.remove", dp))


def h_tree_pairing(I, add_fi, remove_fi):
    P = I.P
    log = []
    tree = Obj(add_fi.cls)
    from pyvc.builtins_model import DefaultDictVal, PyBuiltin

    node = alg.sym("node", "Int")
    outlier = P.decide(2) == 1
    P.assume(P.z(node) == -1 if outlier else P.z(node) >= 0)
    dp = ("dp",)
    data = DefaultDictVal(PyBuiltin("list", lambda I_: []))
    adding = P.decide(2) == 1
    dsl.cover(I, ("add" if adding else "remove") + ("-outlier" if outlier else "-clone"))
    if not adding:
        data.d[node] = [dp]
    tree.fields.update({"_data": data, "_graph": GraphStub(Payload(log)), "_node_indices": NodeIdx(node), "_last_node_added_to": None})
    I.registry.call_contracts[TR + "._update_path_to_root"] = lambda I_, a, k, n: log.append(("path-update-from", a[1]))
    I.registry.call_contracts[TR + ".get_parent"] = lambda I_, a, k, n: ("parent-of", a[1])
    if adding:
        I.call_function(add_fi, [tree, False, dp, node], {}, force_inline=True)
        lst = data.getitem(I, node)
        P.check("tree.add.data-list", lst == [dp] and tree.fields["_last_node_added_to"] is node, "the point is appended to the place's data list; node_last_added_to records it", kind="post")
        if outlier:
            P.check("tree.add.outlier-no-likelihood-change", log == [], "adding to the outlier list touches no clone and starts no path update", kind="post")
        else:
            P.check("tree.add.pairing", log == [("node.add", dp), ("path-update-from", ("parent-of", node))],
                    "clone: the node's vectors are edited (log_p and log_r), then the path update starts at the node's PARENT", kind="post")
    else:
        I.call_function(remove_fi, [tree, dp, node], {}, force_inline=True)
        P.check("tree.remove.data-list", data.getitem(I, node) == [], "the point is removed from the place's data list", kind="post")
        if outlier:
            P.check("tree.remove.outlier-no-likelihood-change", log == [], "removing from the outlier list touches no clone", kind="post")
        else:
            P.check("tree.remove.pairing", log == [("node.remove", dp), ("path-update-from", node)],
                    "clone: the node's log_p is edited, then the path update starts at the NODE ITSELF (its log_r is stale)", kind="post")


class NodeIdx(Model):
    def __init__(self, node):
        self.node = node

    def getitem(self, I, key):
        return alg.raw_app("graph_index", I.to_num(key), sort="Int")


PAIR_COVERS = ["add-clone", "add-outlier", "remove-clone", "remove-outlier"]


def verify_all(ctx, repo, prop):
    dsl.verify(ctx, repo, dsl.Registry(), prop, [TN + ".add_data_point", TN + ".remove_data_point"], h_node_add_remove, expect_covers=NODE_COVERS)
    dsl.verify(ctx, repo, dsl.Registry(), prop, [TN + ".__init__", TN + ".__copy__"], h_node_init_copy, expect_covers=["init-copy"])
    dsl.verify(ctx, repo, dsl.Registry(), prop, TN + ".add_data_point_list", h_node_add_list, expect_covers=ADD_LIST_COVERS)
    dsl.verify(ctx, repo, dsl.Registry(), prop, [TR + "._internal_add_data_point_to_node", TR + ".remove_data_point_from_node"], h_tree_pairing, expect_covers=PAIR_COVERS)
    from contracts import c06_graph as G

    G.verify_all(ctx, repo, prop)
    ctx.trust("np.full / ndarray.copy / in-place += and -= (Arr2 model)")


def h_node_add_list(I, fi):
    """TreeNode.add_data_point_list: for any list length the loop adds every point's grid to log_p AND log_r in place (inductive step
    on an arbitrary element from arbitrary array contents; both arrays stay the node's own objects); the index-set prologue
    (set comprehension / isdisjoint / update) is executed for lists of length 0, 1 and 2 (bounded in the list length)."""
    P = I.P
    D, G, d, k = dims(I)
    n_pts = P.decide(3)
    other = alg.sym("idx_other", "Int")
    pts = [DPv("p%d" % i, D, G) for i in range(n_pts)]
    for p_ in pts:
        P.assume(P.z(p_.idx) != P.z(other))
    if n_pts == 2:
        P.assume(P.z(pts[0].idx) != P.z(pts[1].idx))
    node = node_obj(I, fi.cls, D, G, has=[other])
    lp, lr = node.fields["log_p"], node.fields["log_r"]
    st = {}

    def loop(I_, lnode, fr):
        seq = I_.eval(lnode.iter, fr)
        P.check("node.add-list.loop-over-the-list", seq is pts, "the accumulation loop ranges over the list handed in", kind="post")
        P.check("node.add-list.aliases", fr.vars.get("log_p") is lp and fr.vars.get("log_r") is lr, "the loop works on the node's own arrays", kind="post")
        mode = P.decide(2)
        if mode == 1:
            st["after"] = True
            return  # the prologue's effect is checked on the path that skips the loop
        # inductive step: arbitrary contents, arbitrary element
        a, b = Arr2.symbolic("acc_p", D, G), Arr2.symbolic("acc_r", D, G)
        fr.vars["log_p"], fr.vars["log_r"] = a, b
        e = DPv("elem", D, G)
        I_.assign_target(lnode.target, e, fr)
        dsl.cover(I_, "node.add-list.step")
        I_.exec_block(lnode.body, fr)
        v = alg.raw_app("val_elem", d, k)
        P.check("node.add-list.step", fr.vars.get("log_p") is a and fr.vars.get("log_r") is b
                and bool(alg.is_identically_zero(I_.to_num(a.at(I_, d, k)) - alg.raw_app("acc_p", d, k) - v)) and bool(alg.is_identically_zero(I_.to_num(b.at(I_, d, k)) - alg.raw_app("acc_r", d, k) - v))
                and e.value.writes == 0, "one iteration adds the point's grid to log_p and to log_r, in place, and only reads the grid (so after the loop both hold their old contents plus the sum of all grids)", kind="post")
        raise PathEnd()

    I.registry.loop_invariants[(fi.qualname, 0)] = loop
    I.call_function(fi, [node, pts], {}, force_inline=True)
    if not st.get("after"):
        return
    dsl.cover(I, "node.add-list.prologue-%d" % n_pts)
    from pyvc.interp import SBool
    s_ = node.fields["data_points"]

    def tv(b):
        return b.e if isinstance(b, SBool) else z3.BoolVal(bool(b))

    goal = [tv(I.truth(I.contains(s_.items, other)))] + [tv(I.truth(I.contains(s_.items, p_.idx))) for p_ in pts]
    P.check("node.add-list.membership", z3.And(goal) if goal else True, "the node's index set gains exactly the listed points (lists of length <= 2)", kind="post")
    P.check("node.add-list.set-size", len(s_.items) == 1 + n_pts, "nothing else enters the index set", kind="post")


ADD_LIST_COVERS = ["node.add-list.step", "node.add-list.prologue-0", "node.add-list.prologue-1", "node.add-list.prologue-2"]
