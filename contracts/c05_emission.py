"""C05 contracts: the pmf primitives of phyclone.utils.math, get_major_cn_prior and the two PyClone mixture functions against
the model written from the statement:

   w = (1 - t, t (1 - f), t f);   xi_g(f) = sum_i w_i c_gi mu_gi / sum_i w_i c_gi
   L(f) = log sum_g pi_g pmf(b; n = a + b, xi_g(f)),   pmf binomial, or beta-binomial with (alpha, beta) = (xi s, s - xi s)

The mixture functions are verified for C = 1 and C = 2 genotypes (loops over the genotypes unrolled; every other quantity
symbolic), get_major_cn_prior for major copy number 1..3 with symbolic minor / normal copy numbers and error rate."""
import z3

from pyvc import alg, dsl
from pyvc.alg import Num
from pyvc.builtins_model import NpArr, SymSeq
from pyvc.interp import Model, Obj, PyRaise, Unsupported

MATH = "phyclone.utils.math"
PYC = "phyclone.data.pyclone"


def lg(x):
    from pyvc.builtins_model import _lgamma

    return x


def LG(I, x):
    from pyvc.builtins_model import _lgamma

    return I.to_num(_lgamma(I, x))


def h_binomial_likelihood(I, fi):
    P = I.P
    n, x = alg.sym("n", "Int"), alg.sym("x", "Int")
    p = alg.sym("p")
    P.assume(z3.And(P.z(n) >= 0, P.z(x) >= 0, P.z(x) <= P.z(n), P.z(p) >= 0, P.z(p) <= 1))
    case = P.decide(3)
    P.assume([P.z(p) == 0, P.z(p) == 1, z3.And(P.z(p) > 0, P.z(p) < 1)][case])
    dsl.cover(I, ["p=0", "p=1", "0<p<1"][case])
    out = I.call_function(fi, [n, x, p], {}, force_inline=True)
    if case == 2:
        P.check("binomial-likelihood.interior", P.z(I.to_num(out)) == P.z(x * alg.slog(p) + (n - x) * alg.slog(1 - p)), "x log p + (n - x) log(1 - p)", kind="post")
    else:
        zero_ok = (P.z(x) == 0) if case == 0 else (P.z(x) == P.z(n))
        is_zero = (not isinstance(out, float)) and I.to_num(out).is_zero()
        is_ninf = isinstance(out, float) and out == float("-inf")
        P.check("binomial-likelihood.corner[p=%d]" % case, (is_zero and not P.feasible(z3.Not(zero_ok))) or (is_ninf and not P.feasible(zero_ok)),
                "p in {0,1}: 0 (probability one) when the count is forced, -inf otherwise", kind="post")


def h_pdfs(I, binom_fi, bb_fi, coef_fi, beta_fi):
    P = I.P
    n, x = alg.sym("n", "Int"), alg.sym("x", "Int")
    P.assume(z3.And(P.z(n) >= 0, P.z(x) >= 0, P.z(x) <= P.z(n)))
    coef = LG(I, n + 1) - LG(I, x + 1) - LG(I, n - x + 1)
    which = P.decide(4)
    if which == 0:
        out = I.call_function(coef_fi, [n, x], {}, force_inline=True)
        P.check("log-binomial-coefficient", P.z(I.to_num(out)) == P.z(coef), "lgamma(n+1) - lgamma(x+1) - lgamma(n-x+1)", kind="post")
        dsl.cover(I, "coef")
    elif which == 1:
        p = alg.sym("p")
        P.assume(z3.And(P.z(p) > 0, P.z(p) < 1))
        out = I.call_function(binom_fi, [n, x, p], {}, force_inline=True)
        P.check("log-binomial-pdf", P.z(I.to_num(out)) == P.z(coef + x * alg.slog(p) + (n - x) * alg.slog(1 - p)), "log C(n,x) + x log p + (n-x) log(1-p)", kind="post")
        dsl.cover(I, "binomial")
    elif which == 2:
        a, b = alg.sym("a"), alg.sym("b")
        P.assume(z3.And(P.z(a) > 0, P.z(b) > 0))
        out = I.call_function(bb_fi, [n, x, a, b], {}, force_inline=True)
        spec = coef + (LG(I, a + x) + LG(I, b + n - x) - LG(I, a + b + n)) - (LG(I, a) + LG(I, b) - LG(I, a + b))
        P.check("log-beta-binomial-pdf", P.z(I.to_num(out)) == P.z(spec), "log C(n,x) + log B(a+x, b+n-x) - log B(a,b)", kind="post")
        dsl.cover(I, "beta-binomial")
    else:
        a, b = alg.sym("a"), alg.sym("b")
        pos = P.decide(2) == 1
        P.assume(z3.And(P.z(a) > 0, P.z(b) > 0) if pos else z3.Or(P.z(a) <= 0, P.z(b) <= 0))
        out = I.call_function(beta_fi, [a, b], {}, force_inline=True)
        if pos:
            P.check("log-beta.value", P.z(I.to_num(out)) == P.z(LG(I, a) + LG(I, b) - LG(I, a + b)), "lgamma(a)+lgamma(b)-lgamma(a+b)", kind="post")
        else:
            P.check("log-beta.domain", isinstance(out, float) and out == float("-inf"), "-inf outside the domain", kind="post")
        dsl.cover(I, "beta")


class Arr2(Model):
    def __init__(self, name, rows):
        self.name, self.rows = name, rows

    def getitem(self, I, idx):
        c, i = idx
        return alg.sym("%s_%s_%s" % (self.name, c, i))

    def m___len__(self, I):
        return self.rows


class DataM(Model):
    def __init__(self, C):
        self.C = C

    def a_t(self, I):
        return alg.sym("t")

    def a_cn(self, I):
        return Arr2("cn", self.C)

    def a_mu(self, I):
        return Arr2("mu", self.C)

    def a_log_pi(self, I):
        return NpArr([alg.sym("logpi_%d" % c) for c in range(self.C)])

    def a_a(self, I):
        return alg.sym("ref", "Int")

    def a_b(self, I):
        return alg.sym("alt", "Int")


def xi_spec(c, t, f):
    w = (1 - t, t * (1 - f), t * f)
    cn = [alg.sym("cn_%d_%d" % (c, i)) for i in range(3)]
    mu = [alg.sym("mu_%d_%d" % (c, i)) for i in range(3)]
    num = w[0] * cn[0] * mu[0] + w[1] * cn[1] * mu[1] + w[2] * cn[2] * mu[2]
    den = w[0] * cn[0] + w[1] * cn[1] + w[2] * cn[2]
    return num, den, cn, mu


def frac_in_open_unit(I, x, name):
    """prove 0 < x < 1 for a rational-function value through its cross-multiplied (polynomial, division-free) form"""
    from pyvc.interp import check_isolated

    P = I.P
    n_, d_ = alg.to_fraction(I.to_num(x))
    check_isolated(P, name, z3.And(P.z(d_) > 0, P.z(n_) > 0, P.z(n_) < P.z(d_)), P.ghost.get("nra_facts", []), "0 < value < 1 (cross-multiplied: 0 < N < D with D > 0)")


def mixture_registry():
    """the pmf primitives by their contracts (verified by h_pdfs / h_binomial_likelihood); preconditions checked at the call"""
    r = dsl.Registry()

    def binom(I, args, kwargs, node):
        n, x, p = args
        frac_in_open_unit(I, p, "pre.log_binomial_pdf.p-in-(0,1)[%s]" % I.site(node))
        return alg.raw_app("BINPMF", I.to_num(n), I.to_num(x), I.to_num(p))

    def betabinom(I, args, kwargs, node):
        n, x, a, b = args
        P = I.P
        from pyvc.interp import check_isolated

        for nm, v in (("a", a), ("b", b)):
            n_, d_ = alg.to_fraction(I.to_num(v))
            check_isolated(P, "pre.log_beta_binomial_pdf.%s-positive[%s]" % (nm, I.site(node)), z3.And(P.z(d_) > 0, P.z(n_) > 0), P.ghost.get("nra_facts", []), "beta parameter > 0 (cross-multiplied)")
        return alg.raw_app("BBPMF", I.to_num(n), I.to_num(x), I.to_num(a), I.to_num(b))

    r.call_contracts[MATH + ".log_binomial_pdf"] = binom
    r.call_contracts[MATH + ".log_beta_binomial_pdf"] = betabinom
    r.assumed += ["log_binomial_pdf / log_beta_binomial_pdf by their contracts (h_pdfs): BINPMF(n,x,p) = log C(n,x) + x log p + (n-x) log(1-p) for p in (0,1); "
                  "BBPMF(n,x,a,b) = log C(n,x) + log B(a+x,b+n-x) - log B(a,b) for a, b > 0"]
    return r


def h_mixture(I, binom_fi, bb_fi):
    P = I.P
    C = 1 + P.decide(2)
    which = P.decide(2)
    dsl.cover(I, "C=%d,%s" % (C, "binomial" if which == 0 else "beta-binomial"))
    t, f, e, s = alg.sym("t"), alg.sym("f"), alg.sym("err"), alg.sym("s")
    ref, alt = alg.sym("ref", "Int"), alg.sym("alt", "Int")
    facts = [P.z(t) > 0, P.z(t) <= 1, P.z(f) >= 0, P.z(f) <= 1, P.z(e) > 0, P.z(e) * 2 < 1, P.z(s) > 0]
    P.assume(z3.And(P.z(ref) >= 0, P.z(alt) >= 0))
    xis = []
    for c in range(C):
        num, den, cn, mu = xi_spec(c, t, f)
        for v in cn:
            facts.append(P.z(v) >= 1)  # copy numbers >= 1 (normal_cn >= 1, total_cn >= major_cn >= 1)
        for v in mu:
            facts.append(z3.And(P.z(v) >= P.z(e), P.z(v) <= P.z(1 - e)))  # allele probabilities in [e, 1-e] (get_major_cn_prior)
        xis.append(num / den)
    for fct in facts:
        P.assume(fct)
    P.ghost["nra_facts"] = facts
    data = DataM(C)
    n = ref + alt
    terms = []
    for c in range(C):
        xi = xis[c]
        if which == 0:
            pmf = alg.raw_app("BINPMF", n, alt, xi)
        else:
            pmf = alg.raw_app("BBPMF", n, alt, xi * s, s - xi * s)
        terms.append(alg.sym("logpi_%d" % c) + pmf)
    spec = alg.slog(sum((alg.sexp(x) for x in terms), Num.const(0)))
    out = I.call_function(binom_fi if which == 0 else bb_fi, [data, f] + ([s] if which == 1 else []), {}, force_inline=True)
    # both sides are in normal form: the obligation is decided exactly by the algebra layer (no division reaches the SMT solver)
    P.check("mixture[%s,C=%d]" % ("binomial" if which == 0 else "beta-binomial", C), bool(alg.is_identically_zero(I.to_num(out) - spec)),
            "log sum_g pi_g pmf(alt; ref+alt, xi_g(f)) with xi_g = sum_i w_i c_gi mu_gi / sum_i w_i c_gi, w = (1-t, t(1-f), t f) [exact normal-form identity]", kind="post")


MIX_COVERS = ["C=1,binomial", "C=2,binomial", "C=1,beta-binomial", "C=2,beta-binomial"]


def h_major_cn_prior(I, fi):
    P = I.P
    major = 1 + P.decide(3)
    minor = alg.sym("minor", "Int")
    normal = alg.sym("normal", "Int")
    e = alg.sym("err")
    P.assume(z3.And(P.z(minor) >= 0, P.z(normal) >= 1, P.z(e) > 0, P.z(e) * 2 < 1))
    bad = P.decide(2) == 1
    P.assume(P.z(minor) > major if bad else P.z(minor) <= major)
    dsl.cover(I, "major=%d,%s" % (major, "rejected" if bad else "accepted"))
    I.registry.allowed_raises[:] = [lambda I_, node, what: "MajorCopyNumberError" in what]
    try:
        out = I.call_function(fi, [major, minor, normal], {"error_rate": e}, force_inline=True)
    except PyRaise as ex:
        P.check("cn-prior.rejects-major<minor", bad and "MajorCopyNumberError" in ex.what, "MajorCopyNumberError exactly when major < minor", kind="post")
        return
    P.check("cn-prior.accepts-major>=minor", not bad, "no error when major >= minor", kind="post")
    cn, mu, log_pi = out
    total = minor + major
    same = not P.feasible(P.z(normal) != P.z(total))
    differs = not P.feasible(P.z(normal) == P.z(total))
    G = len(cn.data)
    P.check("cn-prior.genotype-count", (same and G == major) or (differs and G == major + 1), "one genotype per x = 1..major, plus the after-CN-change genotype iff normal_cn != total_cn", kind="post")
    ok = True
    for x in range(1, major + 1):
        row = cn.data[x - 1]
        ok = ok and I.equal(row[0], normal) is True and I.equal(row[1], normal) is True and (I.to_num(row[2]) - total).is_zero()
    P.check("cn-prior.copy-number-rows", ok, "rows (normal, normal, total) for x = 1..major", kind="post")
    for x in range(1, major + 1):
        m = mu.data[x - 1]
        P.check("cn-prior.mu[x=%d]" % x, z3.And(P.z(I.to_num(m[0])) == P.z(e), P.z(I.to_num(m[1])) == P.z(e),
                                                 z3.Or(z3.And(P.z(I.to_num(m[2])) == P.z(1 - e), P.z(1 - e) * P.z(total) <= x), z3.And(P.z(I.to_num(m[2])) * P.z(total) == x, x <= P.z(1 - e) * P.z(total)))),
                "allele probabilities (e, e, min(1 - e, x / total))", kind="post")
    if differs and G == major + 1 and len(mu.data) == major + 1:
        # the genotype of a mutation that arose AFTER the copy number change: one mutated copy among the total_cn present
        dsl.cover(I, "after-cn-change-genotype")
        row, m = cn.data[major], mu.data[major]
        P.check("cn-prior.after-cn-change.copy-number-row", I.equal(row[0], normal) is True and (I.to_num(row[1]) - total).is_zero() and (I.to_num(row[2]) - total).is_zero(),
                "row (normal, total, total) for the genotype of a mutation after the copy number change", kind="post")
        P.check("cn-prior.mu[after-cn-change]", z3.And(P.z(I.to_num(m[0])) == P.z(e), P.z(I.to_num(m[1])) == P.z(e),
                                                       z3.Or(z3.And(P.z(I.to_num(m[2])) == P.z(1 - e), P.z(1 - e) * P.z(total) <= 1), z3.And(P.z(I.to_num(m[2])) * P.z(total) == 1, 1 <= P.z(1 - e) * P.z(total)))),
                "allele probabilities (e, e, min(1 - e, 1 / total)): a single mutated copy, clamped below 1 so that a hemizygous state (total = 1) has no log 0", kind="post")
    P.check("cn-prior.rows-aligned", len(mu.data) == G and len(log_pi.data) == G, "one allele-probability row and one prior weight per genotype", kind="post")
    lp0 = I.to_num(log_pi.data[0])
    P.check("cn-prior.uniform-prior", all((I.to_num(v) - lp0).is_zero() for v in log_pi.data) and P.z(alg.sexp(lp0) * G) == 1, "log_pi uniform and normalised: exp(log_pi) = 1 / #genotypes", kind="post")


# ----------------------------------------------------------------------------------------------------------- grid construction


def h_likelihood_grid(I, fi):
    """_compute_liklihood_grid: log_ll[s, i] is the pyclone density of sample s's counts at the i-th CCF grid value, for every sample
    and every grid index (beta-binomial with the given precision, or binomial); nothing else is written."""
    P = I.P
    S, G = alg.sym("S", "Int"), alg.sym("G", "Int")
    P.assume(z3.And(P.z(S) >= 0, P.z(G) >= 0))
    dens = ["beta-binomial", "binomial", "something-else"][P.decide(3)]
    dsl.cover(I, "grid." + dens)
    stores, calls = [], []

    class LL(Model):
        def setitem(self, I_, idx, v):
            stores.append((idx, v))

    pts = SymSeq("sample_points", S, lambda s_: ("sample-point", I.to_num(s_).key()))
    ccf = SymSeq("ccf_grid", G, lambda i: alg.raw_app("ccf", I.to_num(i)))
    prec = alg.sym("precision")
    I.registry.call_contracts[PYC + ".log_pyclone_beta_binomial_pdf"] = lambda I_, a, k, n: (calls.append(("bb",) + tuple(a)), ("bb-pdf", a[0], I_.to_num(a[1]).key(), I_.to_num(a[2]).key()))[1]
    I.registry.call_contracts[PYC + ".log_pyclone_binomial_pdf"] = lambda I_, a, k, n: (calls.append(("b",) + tuple(a)), ("b-pdf", a[0], I_.to_num(a[1]).key()))[1]
    I.registry.generic_loops.add(fi.qualname)
    I.call_function(fi, [ccf, dens, LL(), prec, pts], {}, force_inline=True)
    gens = P.ghost.get("generic_indices", [])
    if len(gens) < 2:
        dsl.cover(I, "grid.empty")
        P.check("grid.nothing-written-for-an-empty-range", not stores, "no sample or no grid point: nothing is written", kind="post")
        return
    s_, i = gens
    if dens == "something-else":
        P.check("grid.unknown-density-writes-nothing", not stores and not calls, "an unknown density name leaves the grid untouched (run.py restricts the option to the two known names)", kind="post")
        return
    ok = len(stores) == 1 and isinstance(stores[0][0], tuple) and len(stores[0][0]) == 2 and (I.to_num(stores[0][0][0]) - s_).is_zero() and (I.to_num(stores[0][0][1]) - i).is_zero()
    P.check("grid.cell-written", ok, "iteration (s, i) writes exactly log_ll[s, i]", kind="post")
    pt = ("sample-point", s_.key())
    c = alg.raw_app("ccf", i).key()
    want = ("bb-pdf", pt, c, prec.key()) if dens == "beta-binomial" else ("b-pdf", pt, c)
    P.check("grid.value", ok and stores[0][1] == want and len(calls) == 1, "with the density of that sample's counts at that grid value (and the given precision for the beta-binomial)", kind="post")


def h_to_likelihood_grid(I, fi, ccf_fi):
    P = I.P
    G = alg.sym("G", "Int")
    P.assume(P.z(G) >= 2)
    S = alg.sym("S", "Int")
    P.assume(P.z(S) >= 0)
    case = P.decide(3)
    dens, prec = [("beta-binomial", alg.sym("precision")), ("beta-binomial", None), ("binomial", None)][case]
    dsl.cover(I, "to_grid.case%d" % case)
    self = Obj(fi.cls)
    pts = ("sample-data-points",)
    self.fields.update({"samples": SymSeq("samples", S, lambda j: ("sample", j)), "sample_data_points": pts})
    calls, zeros, lin = [], [], []

    class NP(Model):
        def m_zeros(self, I_, shape):
            zeros.append(shape)
            return ("zeros", len(zeros))

        def m_linspace(self, I_, a, b, n):
            lin.append((a, b, n))
            return ("linspace",)

    class TL(Model):
        def m_List(self, I_, x):
            return ("typed-list", x)

    class Typed(Model):
        def a_typed(self, I_):
            return TL()

    I.registry.globals_override["np"] = NP()
    I.registry.globals_override["numba"] = Typed()
    I.registry.call_contracts[PYC + "._compute_liklihood_grid"] = lambda I_, a, k, n: calls.append(a)
    # the documented failure: requires precision for the beta-binomial (callers: run.py always passes one)
    I.registry.allowed_raises[:] = [lambda I_, node, what: "Precision must be set" in what and case == 1]
    try:
        out = I.call_function(fi, [self, dens, G], {"precision": prec}, force_inline=True)
    except PyRaise:
        P.ghost["raise_expected"] = True
        P.check("to_grid.raises-only-without-precision", case == 1 and not calls, "the only failure is a beta-binomial request without a precision", kind="post")
        return
    P.check("to_grid.no-silent-beta-binomial-without-precision", case != 1, "a beta-binomial grid is never computed without a precision", kind="post")
    ok = len(zeros) == 1 and isinstance(zeros[0], tuple) and len(zeros[0]) == 2 and (I.to_num(zeros[0][0]) - S).is_zero() and (I.to_num(zeros[0][1]) - G).is_zero()
    P.check("to_grid.shape", ok, "the grid has one row per sample and grid_size columns", kind="post")
    okl = len(lin) == 1 and I.to_num(lin[0][0]).is_zero() and (I.to_num(lin[0][1]) - 1).is_zero() and (I.to_num(lin[0][2]) - G).is_zero()
    P.check("to_grid.ccf-grid", okl, "the CCF values are linspace(0, 1, grid_size): i / (grid_size - 1)", kind="post")
    okc = len(calls) == 1 and calls[0][0] == ("linspace",) and calls[0][1] == dens and calls[0][2] == ("zeros", 1) and (calls[0][3] is prec) and calls[0][4] == ("typed-list", pts)
    P.check("to_grid.fills-and-returns-that-array", okc and out == ("zeros", 1), "exactly that array is filled from (CCF grid, density, precision, the mutation's per-sample points) and returned", kind="post")


GRID_COVERS = ["grid.beta-binomial", "grid.binomial", "grid.something-else", "grid.empty"]
