"""C16 contracts on phyclone/process_trace/consensus.py (the support computation and the thresholding), for any number of trees,
any clades and any threshold:

 clade_probabilities(trees, weighted, w):  result[c] = sum_i w_i [c in clades(tree_i)]      (weighted)
                                           result[c] = (sum_i [c in clades(tree_i)]) / len(trees)   (counts)
 key_above_threshold(counter, t):          { key | counter[key] > t }   (strict)
 find_smallest_superset(S, q):             None iff no member of S \\ {q} contains q; otherwise a member of S \\ {q} that contains q
                                           and is no larger than any other such member

The witness clade c* is arbitrary: a clade's support is tracked for one arbitrary clade; the dictionary is abstracted to the
cells the loop bodies touch.  Rule used for a loop over a set whose body is exactly `acc[x] += v` with v independent of x:
every member's cell grows by v once, other cells are unchanged (members of a set are pairwise distinct).  The nesting of the
retained clades (M-LAMINAR), networkx and the conversion to a Tree are outside these contracts (bounded stand-in)."""
import ast

import z3

from pyvc import alg, dsl
from pyvc.alg import Num
from pyvc.builtins_model import SymSeq
from pyvc.interp import Frame, Model, PathEnd, SBool, Unsupported

CONS = "phyclone.process_trace.consensus"


class Opaque(Model):
    """an opaque hashable value (a clade); identity is equality"""

    def __init__(self, name):
        self.name = name

    def eq(self, I, other):
        return self is other

    def __repr__(self):
        return "<%s>" % self.name


def zbool(x):
    if isinstance(x, SBool):
        return x.e
    if isinstance(x, bool):
        return z3.BoolVal(x)
    raise Unsupported("filter condition of type %s" % type(x).__name__)


# ------------------------------------------------------------------------------------------------------------ key_above_threshold


class Filtered(Model):
    def __init__(self, n, at):
        self.n, self.at, self.is_set = n, at, False

    def as_set(self, I, frozen):
        self.is_set = True
        return self


class Items(Model):
    def __init__(self, n, key, value):
        self.n, self.key, self.value = n, key, value

    def comprehension(self, I, node, gen, fr):
        def at(idx):
            sub = Frame(fr.module, fr.func, fr.cls)
            sub.vars = dict(fr.vars)
            sub.self_obj = fr.self_obj
            I.assign_target(gen.target, (self.key(idx), self.value(idx)), sub)
            conds = [zbool(I.truth(I.eval(c, sub))) for c in gen.ifs]
            return z3.And(conds) if conds else z3.BoolVal(True), I.eval(node.elt, sub)

        return Filtered(self.n, at)

    def set_comprehension(self, I, node, gen, fr):
        f = self.comprehension(I, node, gen, fr)
        f.is_set = True
        return f


def h_key_above_threshold(I, fi):
    P = I.P
    n = alg.sym("n_keys", "Int")
    P.assume(P.z(n) >= 0)
    thr = alg.sym("threshold")
    keys = {}

    def key(idx):
        k = Num.const(idx).key() if not isinstance(idx, Num) else idx.key()
        return keys.setdefault(k, Opaque("key[%s]" % k))

    class Counter(Model):
        def m_items(self, I_):
            return Items(n, key, lambda idx: alg.raw_app("support", idx))

    res = I.call_function(fi, [Counter(), thr], {}, force_inline=True)
    P.check("threshold.returns-a-set-of-keys", isinstance(res, Filtered) and res.is_set and res.n is n, "the result is a set built from one pass over the items of the counter", kind="post")
    if not isinstance(res, Filtered):
        return
    j = alg.sym("j", "Int")
    P.assume(z3.And(P.z(j) >= 0, P.z(j) < P.z(n)))
    kept, elt = res.at(j)
    dsl.cover(I, "threshold.generic-item")
    P.check("threshold.keeps-the-key", elt is key(j), "what is kept for item j is its key (the clade)", kind="post")
    P.check("threshold.strictly-above", kept == (P.z(alg.raw_app("support", j)) > P.z(thr)),
            "item j is kept if and only if its support strictly exceeds the threshold", kind="post")


# ------------------------------------------------------------------------------------------------------------ clade_probabilities


def h_clade_probabilities(I, fi):
    P = I.P
    weighted = P.decide(2) == 1
    n = alg.sym("n_trees", "Int")
    P.assume(P.z(n) >= 1)
    cstar = Opaque("c*")

    def has(i):
        v = alg.raw_app("has", I.to_num(i), sort="Int")
        P.assume(z3.And(P.z(v) >= 0, P.z(v) <= 1))
        return v

    def weight(i):
        return alg.raw_app("w", I.to_num(i)) if weighted else Num.const(1)

    tree_objs = {}

    def tree_at(i):
        k = I.to_num(i).key()
        return tree_objs.setdefault(k, Opaque("tree[%s]" % k))

    trees = SymSeq("trees", n, tree_at)
    wlist = SymSeq("w", n, lambda i: alg.raw_app("w", I.to_num(i)))
    st = {"acc": Num.const(0), "gen": None, "cur_g": None, "stores": [], "clade_calls": [], "cur_tree": None}

    class WCounter(Model):
        def getitem(self, I_, k):
            if k is cstar:
                return st["acc"]
            if st["gen"] is not None and k is st["gen"]:
                return st["cur_g"]
            raise Unsupported("counter read at a key that is neither the loop element nor the witness")

        def setitem(self, I_, k, v):
            st["stores"].append((k, v))
            if k is cstar:
                st["acc"] = I_.to_num(v)

        def for_loop(self, I_, node, fr):
            # `for clade in counter: counter[clade] = f(counter[clade])`: every key is visited once, so the witness is
            # (per-iteration cell rule: the body may touch its own cell only)
            del st["stores"][:]
            I_.assign_target(node.target, cstar, fr)
            I_.exec_block(node.body, fr)
            I_.P.check("support.normalisation-touches-own-cell", all(k is cstar for k, _ in st["stores"]) and len(st["stores"]) == 1,
                       "the normalisation pass rewrites exactly the visited key", kind="post")

    counter = WCounter()

    class CladeSet(Model):
        def __init__(self, i):
            self.i = i

        def for_loop(self, I_, node, fr):
            g = Opaque("clade-g")
            cur = alg.sym(I_.P.fresh_name("cur_g"))
            st["gen"], st["cur_g"] = g, cur
            del st["stores"][:]
            I_.assign_target(node.target, g, fr)
            I_.exec_block(node.body, fr)
            ok = len(st["stores"]) == 1 and st["stores"][0][0] is g
            I_.P.check("support.one-increment-per-clade", ok, "for each clade of the tree exactly its own counter cell is updated", kind="post")
            if not ok:
                raise PathEnd()
            delta = I_.to_num(st["stores"][0][1]) - cur
            I_.P.check("support.increment-independent-of-clade", str(cur.key()) not in str(delta.key()), "the increment does not depend on the clade or on its current count", kind="post")
            st["gen"] = None
            st["acc"] = st["acc"] + delta * has(self.i)

    def get_clades(I_, args, kwargs, node):
        t = args[0]
        st["clade_calls"].append(t)
        return CladeSet(st["cur_i"])

    I.registry.call_contracts["phyclone.tree.utils.get_clades"] = get_clades
    I.registry.call_contracts[CONS + ".get_clades"] = get_clades

    I.registry.globals_override["defaultdict"] = lambda I_, *a: counter

    def outer(I_, node, fr):
        seq = I_.eval(node.iter, fr)
        okseq = isinstance(seq, SymSeq) and not seq.tail and P.z(seq.length) == P.z(n)
        P.check("support.every-tree-once", okseq, "the accumulation loop ranges over all trees", kind="post")
        if not isinstance(seq, SymSeq):
            raise PathEnd()
        mode = P.decide(2)
        if mode == 0:
            i = seq.fresh_index(I_, "t")
            elem = seq.at(I_, i)
            acc0 = alg.sym(P.fresh_name("acc"))
            st["acc"] = acc0
            st["cur_i"] = i
            del st["clade_calls"][:]
            I_.assign_target(node.target, elem, fr)
            dsl.cover(I_, "support.step")
            I_.exec_block(node.body, fr)
            P.check("support.clades-of-the-current-tree", len(st["clade_calls"]) == 1 and st["clade_calls"][0] is tree_at(i), "the clades are those of tree i", kind="post")
            P.check("support.step", P.z(st["acc"]) == P.z(acc0 + weight(i) * has(i)), "tree i adds w_i to the support of c* exactly when c* is one of its clades", kind="post")
            raise PathEnd()
        b = alg.fresh_bound()
        st["acc"] = alg.bigsum("", n, weight(b) * alg.raw_app("has", b, sort="Int"), bound=b)
        st["total"] = st["acc"]
        dsl.cover(I_, "support.after")

    I.registry.loop_invariants[(fi.qualname, 0)] = outer
    res = I.call_function(fi, [trees], {"weighted": weighted, "log_p_list": wlist if weighted else None}, force_inline=True)
    P.check("support.returns-the-counter", res is counter, "the accumulated counter is returned", kind="post")
    total = st.get("total")
    if total is None:
        return
    dsl.cover(I, "support.weighted" if weighted else "support.counts")
    want = total if weighted else total / n
    P.check("support.value", alg.is_identically_zero(st["acc"] - want) or P.z(st["acc"]) == P.z(want),
            "support(c*) = sum_i w_i [c* in clades(tree_i)]" if weighted else "support(c*) = #{i : c* in clades(tree_i)} / number of trees", kind="post")


SUPPORT_COVERS = ["support.step", "support.after", "support.weighted", "support.counts"]


# ------------------------------------------------------------------------------------------------------------ find_smallest_superset


def h_smallest_superset(I, fi):
    P = I.P
    n = alg.sym("n_sets", "Int")
    P.assume(P.z(n) >= 0)
    query = Opaque("query")
    discarded = []

    def size(i):
        v = alg.raw_app("size", I.to_num(i), sort="Int")
        P.assume(P.z(v) >= 0)
        return v

    def sup(i):
        return z3.Function("is_superset", z3.IntSort(), z3.BoolSort())(P.z(I.to_num(i)))

    class Cand(Model):
        def __init__(self, i):
            self.i = i

        def m_issuperset(self, I_, other):
            if other is not query:
                raise Unsupported("issuperset of something other than the query")
            return SBool(sup(self.i))

        def m___len__(self, I_):
            return size(self.i)

        def eq(self, I_, other):
            return self is other

    cands = {}

    def cand(i):
        k = I.to_num(i).key()
        return cands.setdefault(k, Cand(I.to_num(i)))

    seq = SymSeq("candidates", n, cand)

    class SetOfSets(Model):
        def m_discard(self, I_, x):
            discarded.append(x)

        def for_loop(self, I_, node, fr):
            return I_.registry.loop_invariants[(fi.qualname, 0)](I_, node, fr)

    w = alg.sym("w_star", "Int")  # witness: an arbitrary candidate
    P.assume(z3.And(P.z(w) >= 0, P.z(w) < P.z(n)))
    st = {}

    def inv(fr, seen):
        s, sz = fr.vars["smallest_superset"], fr.vars["smallest_superset_size"]
        if s is None:
            return z3.And(isinstance(sz, float) and sz == float("inf"), z3.Not(z3.And(seen, sup(w))))
        if not isinstance(s, Cand):
            return z3.BoolVal(False)
        zsz = P.z(I.to_num(sz))
        return z3.And(sup(s.i), zsz == P.z(size(s.i)), P.z(s.i) >= 0, P.z(s.i) < P.z(n), z3.Implies(z3.And(seen, sup(w)), zsz <= P.z(size(w))))

    def loop(I_, node, fr):
        from pyvc.interp import _Continue
        P.check("superset.query-removed-first", len(discarded) == 1 and discarded[0] is query, "the query itself is removed from the candidates before the search", kind="post")
        P.check("superset.inv-on-entry", inv(fr, z3.BoolVal(False)), "nothing selected before the loop", kind="post")
        mode = P.decide(3)
        if mode < 2:
            # inductive step from (0) the empty selection, (1) an arbitrary selection satisfying the invariant
            j = alg.sym(P.fresh_name("j"), "Int")
            P.assume(z3.And(P.z(j) >= 0, P.z(j) < P.z(n)))
            seen = z3.Bool(P.fresh_name("seen"))
            if mode == 1:
                m = alg.sym(P.fresh_name("m"), "Int")
                P.assume(z3.And(P.z(m) >= 0, P.z(m) < P.z(n), P.z(m) != P.z(j)))
                fr.vars["smallest_superset"] = cand(m)
                fr.vars["smallest_superset_size"] = size(m)
                # requires (chain): two different candidates that both contain the query have different sizes
                P.assume(z3.Implies(z3.And(sup(j), sup(m)), P.z(size(j)) != P.z(size(m))), "requires: supersets of the query among the candidates form a chain")
            P.assume(inv(fr, seen))
            I_.assign_target(node.target, cand(j), fr)
            dsl.cover(I_, "superset.step%d" % mode)
            try:
                I_.exec_block(node.body, fr)
            except _Continue:
                pass
            P.check("superset.inv-preserved", inv(fr, z3.Or(seen, P.z(j) == P.z(w))),
                    "after a candidate: the selection is a superset of the query among the candidates, and no larger than the witness if that was seen", kind="post")
            raise PathEnd()
        # after the loop: arbitrary final selection satisfying the invariant with every candidate seen
        if P.decide(2) == 1:
            m = alg.sym(P.fresh_name("m"), "Int")
            P.assume(z3.And(P.z(m) >= 0, P.z(m) < P.z(n)))
            fr.vars["smallest_superset"] = cand(m)
            fr.vars["smallest_superset_size"] = size(m)
        P.assume(inv(fr, z3.BoolVal(True)))
        dsl.cover(I_, "superset.after")

    I.registry.loop_invariants[(fi.qualname, 0)] = loop
    res = I.call_function(fi, [SetOfSets(), query], {}, force_inline=True)
    if res is None:
        P.check("superset.none-only-without-supersets", z3.Not(sup(w)), "None is returned only if no candidate contains the query", kind="post")
    else:
        P.check("superset.result", isinstance(res, Cand) and z3.And(sup(res.i), z3.Implies(sup(w), P.z(size(res.i)) <= P.z(size(w)))),
                "the result contains the query and is no larger than any candidate that contains the query", kind="post")


SUPERSET_COVERS = ["superset.step0", "superset.step1", "superset.after"]


def h_consensus(I, fi):
    """consensus(clades): every retained clade becomes a node of the graph, and nothing else does; the parent of a clade is what
    find_smallest_superset returns for (a private copy of the clades, the clade)"""
    P = I.P
    n = alg.sym("n_clades", "Int")
    P.assume(P.z(n) >= 1)
    objs = {}

    def clade(i):
        k = I.to_num(i).key()
        return objs.setdefault(k, Opaque("clade[%s]" % k))

    clades = SymSeq("clades", n, clade)
    log = {"edges": [], "nodes": [], "calls": []}

    class DiGraph(Model):
        def m_add_edge(self, I_, a, b):
            log["edges"].append((a, b))

        def m_add_node(self, I_, a):
            log["nodes"].append(a)

    graph = DiGraph()

    class Nx(Model):
        def m_DiGraph(self, I_):
            return graph

    I.registry.globals_override["nx"] = Nx()
    parent = Opaque("some-other-clade")

    def fss(I_, args, kwargs, node):
        log["calls"].append((args[0], args[1]))
        return parent if I_.P.decide(2) == 1 else None

    I.registry.call_contracts[CONS + ".find_smallest_superset"] = fss
    I.registry.generic_loops.add(fi.qualname)
    res = I.call_function(fi, [clades], {}, force_inline=True)
    gens = P.ghost.get("generic_indices", [])
    P.check("consensus.loop-over-the-clades", len(gens) == 1, "one pass over the retained clades (arbitrary clade c)", kind="post")
    if len(gens) != 1:
        return
    c = clade(gens[0])
    dsl.cover(I, "consensus.generic-clade")
    P.check("consensus.returns-the-graph", res is graph, "the graph that was built is returned", kind="post")
    ok_call = len(log["calls"]) == 1 and log["calls"][0][1] is c and isinstance(log["calls"][0][0], SymSeq) and log["calls"][0][0] is not clades \
        and log["calls"][0][0].key == clades.key and not log["calls"][0][0].tail
    P.check("consensus.search-on-a-private-copy", ok_call, "the parent of c is searched in a copy of the clades (the search removes c from the set it is given)", kind="post")
    added = [("edge", e) for e in log["edges"]] + [("node", x) for x in log["nodes"]]
    P.check("consensus.clade-becomes-a-node", len(added) == 1 and ((added[0][0] == "node" and added[0][1] is c) or (added[0][0] == "edge" and added[0][1][1] is c and added[0][1][0] is parent)),
            "c is added exactly once: as a child of the smallest superset when there is one, as a top-level node otherwise; no other node is created", kind="post")


def h_pipeline(I, fi):
    """get_consensus_tree: supports -> thresholding with the caller's threshold -> nesting -> relabel -> clean, each stage fed by the previous one"""
    P = I.P
    thr = alg.sym("threshold")
    weighted = P.decide(2) == 1
    trees, data, wl = Opaque("trees"), Opaque("data"), Opaque("weights")
    tok = {k: Opaque(k) for k in ("counter", "kept", "graph", "relabelled", "clean")}
    seen = {}

    def stage(name, out):
        def f(I_, args, kwargs, node):
            seen[name] = (list(args), dict(kwargs))
            return tok[out]
        return f

    for name, out in (("clade_probabilities", "counter"), ("key_above_threshold", "kept"), ("consensus", "graph"), ("relabel", "relabelled"), ("clean_tree", "clean")):
        I.registry.call_contracts[CONS + "." + name] = stage(name, out)
    res = I.call_function(fi, [trees], {"data": data, "threshold": thr, "weighted": weighted, "log_p_list": wl}, force_inline=True)
    dsl.cover(I, "pipeline.ran")

    def arg(name, pos, kw):
        a, k = seen.get(name, ([], {}))
        return a[pos] if len(a) > pos else k.get(kw)

    P.check("pipeline.supports-from-all-trees", arg("clade_probabilities", 0, "trees") is trees and arg("clade_probabilities", 1, "weighted") is weighted and arg("clade_probabilities", 2, "log_p_list") is wl,
            "supports are computed from the trees, the weighting mode and the weights given", kind="post")
    t = arg("key_above_threshold", 1, "threshold")
    P.check("pipeline.threshold-unchanged", arg("key_above_threshold", 0, "counter") is tok["counter"] and isinstance(t, Num) and (t - thr).is_zero(),
            "the supports are cut at exactly the caller's threshold", kind="post")
    P.check("pipeline.nesting-of-kept-clades", arg("consensus", 0, "clades") is tok["kept"], "the graph is built from exactly the retained clades", kind="post")
    P.check("pipeline.relabel-then-clean", arg("relabel", 0, "graph") is tok["graph"] and arg("clean_tree", 0, "tree") is tok["relabelled"] and arg("clean_tree", 1, "data") is data and res is tok["clean"],
            "the graph is relabelled, cleaned with the data and returned", kind="post")


PT = "phyclone.process_trace.process_trace"


def h_consensus_command(I, fi):
    """write_consensus_results, both weightings, any number of chains / entries / distinct topologies:
      counts   the trees are every entry of every chain restored with Tree.from_dict, no weights;
      weighted the trees are the distinct topologies of the whole trace (create_topology_dict_from_trace, C11) and the weight of topology j is
               exp_normalize over ( log_p_joint_max_j + log count_j ) - same j for the tree and its weight, normalised before it is handed on;
    the consensus is taken at the caller's threshold with that weighting flag, turned into a Tree with the trace's data, tabulated with the trace's samples and
    clusters, and exactly that table and tree are written."""
    from contracts.c11_trace import Effects, GzipMod, PickleMod
    P = I.P
    fx = Effects()
    log = fx.log
    weighted = P.decide(2) == 1
    thr = alg.sym("threshold")
    nch, ntop = alg.sym("n_chains", "Int"), alg.sym("n_topologies", "Int")
    P.assume(z3.And(P.z(nch) >= 1, P.z(ntop) >= 1))

    def k_(x):
        return x.key() if isinstance(x, Num) else x

    class Entry(Model):
        def __init__(self, c, i):
            self.c, self.i = c, i

        def getitem(self, I_, key):
            return ("field", key, k_(self.c), k_(self.i))

    class ChainRes(Model):
        def __init__(self, c):
            self.c = c

        def getitem(self, I_, key):
            if key == "trace":
                ln = alg.raw_app("n_entries", I_.to_num(self.c) if not isinstance(self.c, tuple) else Num.const(0), sort="Int")
                I_.P.assume(I_.P.z(ln) >= 0)
                return SymSeq("trace", ln, lambda i: Entry(self.c, I_.to_num(i)))
            return ("chain-field", key, k_(self.c))

        def m_get(self, I_, key, default=None):
            return ("chain-field-or-none", key, k_(self.c), default)

    class Results(Model):
        def getitem(self, I_, c):
            return ChainRes(I_.to_num(c))

        def m_values(self, I_):
            return SymSeq("chains", nch, lambda c: ChainRes(I_.to_num(c)))

        def m_items(self, I_):
            return SymSeq("chains.items", nch, lambda c: (I_.to_num(c), ChainRes(I_.to_num(c))))

    results = Results()
    I.registry.globals_override["gzip"] = GzipMod(fx)
    I.registry.globals_override["pickle"] = PickleMod(fx, results)

    class Info(Model):
        def __init__(self, j):
            self.j = j

        def getitem(self, I_, key):
            if key == "log_p_joint_max":
                return alg.raw_app("score", self.j)
            if key == "count":
                c = alg.raw_app("count", self.j, sort="Int")
                I_.P.assume(I_.P.z(c) >= 1)
                return c
            raise Unsupported("topology record[%r]" % (key,))

    class Topos(Model):
        def m_items(self, I_):
            return SymSeq("topologies.items", ntop, lambda j: (("topology", k_(I_.to_num(j))), Info(I_.to_num(j))))

    I.registry.call_contracts[PT + ".create_topology_dict_from_trace"] = lambda I_, a, k, n: (log.append(("topology-dict", a[0])), Topos())[1]
    I.registry.call_contracts["phyclone.tree.tree.Tree.from_dict"] = lambda I_, a, k, n: ("tree-from", a[-1])
    I.registry.call_contracts["phyclone.utils.math.exp_normalize"] = lambda I_, a, k, n: (("normalised", a[0]), ("log-norm", a[0]))
    I.registry.call_contracts[CONS + ".get_consensus_tree"] = lambda I_, a, k, n: (log.append(("consensus", list(a), dict(k))), ("graph",))[1]
    I.registry.call_contracts[PT + ".get_tree_from_consensus_graph"] = lambda I_, a, k, n: (log.append(("to-tree", a[0], a[1])), ("tree",))[1]
    I.registry.call_contracts[PT + ".get_clone_table"] = lambda I_, a, k, n: (log.append(("table", a[0], a[1], a[2], k.get("clusters", a[3] if len(a) > 3 else None))), ("table",))[1]
    I.registry.call_contracts[PT + "._create_results_output_files"] = lambda I_, a, k, n: log.append(("write", a[0], a[1], a[2], a[3]))

    class NP(Model):
        def m_array(self, I_, x):
            return ("array", x)

        def m_log(self, I_, x):
            return alg.slog(I_.to_num(x))

        def getattr(self, I_, name):
            try:
                return Model.getattr(self, I_, name)
            except Unsupported:
                from pyvc.interp import PyBuiltin
                # any other numpy call on the weights is kept as a token: the obligation on the weights then fails instead of the engine giving up
                return PyBuiltin("np." + name, lambda I2, *a, **k: NpTok(name, a))

    class NpTok(Model):
        def __init__(self, name, args):
            self.name, self.args = name, args

        def binop(self, I_, op, other, swapped):
            return NpTok(type(op).__name__, (other, self) if swapped else (self, other))

    class Pd(Model):
        def m_DataFrame(self, I_, x):
            return ("frame", x)

    class RecList(Model):
        """a list the command fills: records what is appended / extended (one generic iteration per loop under the independent-iterations rule)"""

        def __init__(self, name):
            self.name, self.items = name, []

        def m_append(self, I_, x):
            self.items.append(("one", x))

        def m_extend(self, I_, xs):
            self.items.append(("many", xs))

        def m___len__(self, I_):
            raise Unsupported("length of an accumulated list")

    made_lists = []

    def new_list(I_, node):
        made_lists.append(RecList("trees" if not made_lists else ("probs" if len(made_lists) == 1 else "list%d" % len(made_lists))))
        return made_lists[-1]

    I.registry.empty_list_model = new_list
    I.registry.globals_override["np"] = NP()
    I.registry.globals_override["pd"] = Pd()
    I.registry.generic_loops.add(fi.qualname)
    I.call_function(fi, [("in",), ("out-table",), ("out-tree",)], {"consensus_threshold": thr, "weight_type": "joint-likelihood" if weighted else "counts"}, force_inline=True)
    dsl.cover(I, "consensus-command.weighted" if weighted else "consensus-command.counts")
    gens = P.ghost.get("generic_indices", [])
    cons = [e for e in log if e[0] == "consensus"]
    if len(cons) != 1:
        P.check("consensus-command.one-consensus", False, "the consensus is computed once", kind="post")
        return
    a, k = cons[0][1], cons[0][2]

    def arg(pos, name):
        return a[pos] if len(a) > pos else k.get(name)

    trees, data, t_, w_, lp = arg(0, "trees"), arg(1, "data"), arg(2, "threshold"), arg(3, "weighted"), arg(4, "log_p_list")
    P.check("consensus-command.callers-threshold-and-mode", isinstance(t_, Num) and (t_ - thr).is_zero() and w_ is weighted, "the consensus uses the caller's threshold and the weighting the caller asked for", kind="post")
    P.check("consensus-command.data-of-the-trace", data == ("chain-field", "data", Num.const(0).key()), "data points are those stored with the trace", kind="post")
    if weighted:
        ok = len(gens) == 1 and isinstance(trees, RecList) and trees.items == [("one", ("topology", gens[0].key()))] and ("topology-dict", results) in log
        P.check("consensus-command.weighted.trees-are-the-distinct-topologies", ok, "one tree per distinct topology of the whole trace", kind="post")
        okw = False
        if ok and isinstance(lp, tuple) and lp[0] == "normalised" and isinstance(lp[1], tuple) and lp[1][0] == "array" and isinstance(lp[1][1], RecList) and lp[1][1] is not trees \
                and len(lp[1][1].items) == 1 and lp[1][1].items[0][0] == "one":
            j = gens[0]
            want = alg.raw_app("score", j) + alg.slog(alg.raw_app("count", j, sort="Int"))
            got = lp[1][1].items[0][1]
            okw = isinstance(got, Num) and (bool(alg.is_identically_zero(got - want)) or not P.feasible(P.z(got) != P.z(want)))
        P.check("consensus-command.weighted.weight-of-the-same-topology", okw,
                "the weight list is exp_normalize over (log_p_joint_max_j + log count_j), entry j belonging to tree j, and it is the NORMALISED vector that is handed on", kind="post")
    else:
        ok = isinstance(trees, RecList) and len(trees.items) == 1 and trees.items[0][0] == "many" and isinstance(trees.items[0][1], SymSeq) and len(gens) >= 1
        if ok:
            seg = trees.items[0][1]
            c = gens[0]
            ok = not seg.tail and not P.feasible(P.z(seg.core_len) != P.z(alg.raw_app("n_entries", c, sort="Int")))
            i_ = alg.sym("i_entry", "Int")
            P.assume(z3.And(P.z(i_) >= 0, P.z(i_) < P.z(seg.core_len)))
            if ok and P.feasible(z3.BoolVal(True)):
                el = seg.core_at(I, i_)
                ok = isinstance(el, tuple) and el[0] == "tree-from" and el[1] == ("field", "tree", c.key(), i_.key())
        no_weights = lp is None or (isinstance(lp, RecList) and not lp.items) or lp == []
        P.check("consensus-command.counts.every-entry-of-every-chain", ok and no_weights, "counts mode: every entry of every chain is restored and counted once; no weights", kind="post")
    tt = [e for e in log if e[0] == "to-tree"]
    tb = [e for e in log if e[0] == "table"]
    wr = [e for e in log if e[0] == "write"]
    ok_tail = len(tt) == 1 and tt[0][1] == ("chain-field", "data", Num.const(0).key()) and tt[0][2] == ("graph",) \
        and len(tb) == 1 and tb[0][1] == ("chain-field", "data", Num.const(0).key()) and tb[0][2] == ("chain-field", "samples", Num.const(0).key()) and tb[0][3] == ("tree",) \
        and isinstance(tb[0][4], tuple) and tb[0][4][:3] == ("chain-field-or-none", "clusters", Num.const(0).key()) and tb[0][4][3] is None \
        and len(wr) == 1 and wr[0][1] == ("out-table",) and wr[0][2] == ("out-tree",) and wr[0][3] == ("frame", ("table",)) and wr[0][4] == ("tree",)
    P.check("consensus-command.table-and-tree-of-the-consensus", ok_tail,
            "the consensus graph becomes a Tree over the trace's data, is tabulated with the trace's samples and clusters, and exactly that table and tree are written", kind="post")


def h_exp_normalize(I, fi):
    """exp_normalize(v) for a vector of any length n >= 1: entry i of the first result is exp(v_i - L) / sum_j exp(v_j - L) with L = log_sum_exp(v), i.e.
    exp(v_i) / sum_j exp(v_j): the weights are positive and sum to one (log_sum_exp by its own contract: log sum_j exp v_j)."""
    P = I.P
    n = alg.sym("n", "Int")
    P.assume(P.z(n) >= 1)
    L = alg.sym("L")

    class Vec(Model):
        """a 1-D float array given by its element function"""

        def __init__(self, elem):
            self.elem = elem

        def binop(self, I_, op, other, swapped):
            if isinstance(other, Vec):
                raise Unsupported("vector (op) vector")
            o = I_.to_num(other)
            f = self.elem
            if isinstance(op, ast.Sub):
                return Vec((lambda i: o - f(i)) if swapped else (lambda i: f(i) - o))
            if isinstance(op, ast.Div) and not swapped:
                return Vec(lambda i: f(i) / o)
            raise Unsupported("vector operation %s" % type(op).__name__)

        def m_sum(self, I_):
            b = alg.fresh_bound()
            return alg.bigsum("", n, self.elem(b), bound=b)

    v = Vec(lambda i: alg.raw_app("v", i))

    class NP(Model):
        def m_exp(self, I_, x):
            if not isinstance(x, Vec):
                raise Unsupported("np.exp of a scalar here")
            f = x.elem
            return Vec(lambda i: alg.sexp(f(i)))

    I.registry.globals_override["np"] = NP()
    I.registry.call_contracts["phyclone.utils.math.log_sum_exp"] = lambda I_, a, k, nd: L if a[0] is v else (_ for _ in ()).throw(Unsupported("log_sum_exp of something else"))
    out = I.call_function(fi, [v], {}, force_inline=True)
    dsl.cover(I, "exp_normalize")
    ok = isinstance(out, tuple) and len(out) == 2 and isinstance(out[0], Vec) and isinstance(out[1], Num) and (out[1] - L).is_zero()
    P.check("exp_normalize.returns-weights-and-log-norm", ok, "returns (weights, log_sum_exp(v))", kind="post")
    if ok:
        i = alg.sym("i", "Int")
        P.assume(z3.And(P.z(i) >= 0, P.z(i) < P.z(n)))
        b = alg.fresh_bound()
        total = alg.bigsum("", n, alg.sexp(alg.raw_app("v", b) - L), bound=b)
        # contract of log_sum_exp (L = log sum_j exp v_j): sum_j exp(v_j - L) = 1; with it the renormalisation p / p.sum() is a no-op in exact arithmetic
        P.assume(P.z(total) == 1, "log_sum_exp contract")
        want = alg.sexp(alg.raw_app("v", i) - L)
        got = out[0].elem(i)
        P.check("exp_normalize.entry", bool(alg.is_identically_zero(got - want)) or not P.feasible(P.z(got) != P.z(want)),
                "weight i = exp(v_i - L) = exp(v_i) / sum_j exp(v_j): positive, and the weights sum to one", kind="post")


def h_relabel(I, fi):
    """relabel(graph): one new directed graph; every parentless node of the consensus graph (roots(graph), by its own contract) is handed to _relabel once, with
    that new graph as the target and the consensus graph as the source; the new graph is returned"""
    P = I.P
    n = alg.sym("n_roots", "Int")
    P.assume(P.z(n) >= 0)
    graph = Opaque("consensus-graph")
    made, calls = [], []

    class NX(Model):
        def m_DiGraph(self, I_, *a, **k):
            made.append((a, k))
            return ("new-graph", len(made))

    I.registry.globals_override["nx"] = NX()
    I.registry.call_contracts[CONS + ".roots"] = lambda I_, a, k, nd: SymSeq("roots", n, lambda i: ("root", I_.to_num(i).key())) if a[0] is graph else (_ for _ in ()).throw(Unsupported("roots of another graph"))
    I.registry.call_contracts[CONS + "._relabel"] = lambda I_, a, k, nd: calls.append(list(a))
    I.registry.generic_loops.add(fi.qualname)
    out = I.call_function(fi, [graph], {}, force_inline=True)
    dsl.cover(I, "relabel")
    gens = P.ghost.get("generic_indices", [])
    P.check("relabel.one-new-graph-returned", made == [((), {})] and out == ("new-graph", 1), "a fresh directed graph is created, filled and returned", kind="post")
    if gens:
        dsl.cover(I, "relabel.some-root")
        P.check("relabel.every-parentless-node-once", len(gens) == 1 and len(calls) == 1 and calls[0][0] == ("root", gens[0].key()) and calls[0][1] == ("new-graph", 1) and calls[0][2] is graph,
                "every parentless consensus node is relabelled (with its subtree) into the new graph, from the consensus graph", kind="post")
    else:
        dsl.cover(I, "relabel.no-root")
        P.check("relabel.nothing-without-roots", not calls and not P.feasible(P.z(n) != 0), "no node, nothing to relabel", kind="post")


def h_consensus_labels(I, fi):
    """get_tree_from_consensus_graph: the label of every data point listed by a consensus node is that node, every other data point is
    labelled with the outlier node, top-level consensus nodes are attached to the root, and the Tree is built from exactly that."""
    P = I.P
    n = alg.sym("n_data", "Int")
    k = alg.sym("n_nodes", "Int")
    P.assume(z3.And(P.z(n) >= 1, P.z(k) >= 0))
    covered = z3.Function("covered", z3.IntSort(), z3.BoolSort())
    log = {"stores": [], "asked": [], "edges": [], "update": 0, "fdn": []}
    outl, rootn = alg.sym("outlier_node_name", "Int"), alg.sym("root_node_name", "Int")

    class Labels(Model):
        def setitem(self, I_, key, v):
            log["stores"].append((I_.to_num(key), v))

        def contains(self, I_, key):
            log["asked"].append(I_.to_num(key))
            return SBool(covered(P.z(I_.to_num(key))))

    labels = Labels()

    class DP(Model):
        def __init__(self, i):
            self.i = I.to_num(i)

        def a_idx(self, I_):
            return alg.raw_app("idx_of", self.i, sort="Int")

        def a_grid_size(self, I_):
            return alg.sym("G", "Int")

    data = SymSeq("data", n, lambda i: DP(i))

    def node_id(t):
        return alg.raw_app("node", I.to_num(t), sort="Int")

    class NodeAttrs(Model):
        def __init__(self, nd):
            self.nd = nd

        def getitem(self, I_, key):
            if key != "idxs":
                raise Unsupported("node attribute %r" % (key,))
            cnt = alg.raw_app("n_own", self.nd, sort="Int")
            I_.P.assume(I_.P.z(cnt) >= 0)
            return SymSeq("idxs[%s]" % self.nd.key(), cnt, lambda t: alg.raw_app("own", self.nd, I_.to_num(t), sort="Int"))

    class NodesView(SymSeq):
        def getitem(self, I_, key):
            return NodeAttrs(I_.to_num(key))

    class Graph(Model):
        def __init__(self, is_copy=False):
            self.is_copy = is_copy

        def a_nodes(self, I_):
            return NodesView("graph.nodes", k, node_id)

        def m_copy(self, I_):
            return Graph(True)

        def m_predecessors(self, I_, nd):
            cnt = alg.raw_app("n_pred", I_.to_num(nd), sort="Int")
            I_.P.assume(I_.P.z(cnt) >= 0)
            return SymSeq("pred", cnt, lambda t: alg.raw_app("pred", I_.to_num(nd), I_.to_num(t), sort="Int"))

        def m_add_edge(self, I_, a, b):
            log["edges"].append((self, a, b))

    class TreeM(Model):
        def a_outlier_node_name(self, I_):
            return outl

        def a_root_node_name(self, I_):
            return rootn

        def m_update(self, I_):
            log["update"] += 1

    class TreeCls(Model):
        def call(self, I_, args, kwargs):
            return TreeM()

    built = TreeM()

    class Nx(Model):
        def m_to_dict_of_dicts(self, I_, g):
            return ("dict-of-dicts", g)

    I.registry.globals_override["nx"] = Nx()
    I.registry.globals_override["Tree"] = lambda I_, *a: TreeM()
    I.registry.empty_dict_model = lambda I_: labels

    def fdn(I_, args, kwargs, node):
        log["fdn"].append(args)
        return built

    I.registry.call_contracts[PT + ".from_dict_nx"] = fdn
    I.registry.generic_loops.add(fi.qualname)
    I.registry.generic_store_ok = {"labels"}
    g0 = Graph()
    res = I.call_function(fi, [data, g0], {}, force_inline=True)
    gens = P.ghost.get("generic_indices", [])
    dsl.cover(I, "labels.ran")
    has_nodes = not P.feasible(P.z(k) == 0)
    want = {True: (3, 4), False: (1,)}[has_nodes]
    P.check("clabels.loops", len(gens) in want, "nodes x own points, input data, nodes again (arbitrary element of each; a loop over nothing contributes nothing)", kind="post")
    if len(gens) not in want:
        return
    own_stores = []
    if len(gens) == 4:
        k1, t, j, k3 = gens
        nd = node_id(k1)
        own = alg.raw_app("own", nd, t, sort="Int")
        s0 = log["stores"][0] if log["stores"] else None
        P.check("clabels.own-points-labelled-with-their-node", s0 is not None and (s0[0] - own).is_zero() and isinstance(s0[1], Num) and (s0[1] - nd).is_zero(),
                "every data point listed by a consensus node is labelled with that node", kind="post")
        own_stores = log["stores"][:1]
    elif len(gens) == 3:
        k1, j, k3 = gens
        P.check("clabels.node-without-own-points", not P.feasible(P.z(alg.raw_app("n_own", node_id(k1), sort="Int")) != 0), "a consensus node that lists no data point labels nothing", kind="post")
    else:
        j, k3 = gens[0], None
    xidx = alg.raw_app("idx_of", j, sort="Int")
    P.check("clabels.lookup-by-own-idx", len(log["asked"]) == 1 and (log["asked"][0] - xidx).is_zero(), "input point x is looked up by its own idx", kind="post")
    rest = log["stores"][len(own_stores):]
    if rest:
        P.check("clabels.uncovered-point-is-outlier", len(rest) == 1 and (rest[0][0] - xidx).is_zero() and isinstance(rest[0][1], Num) and (rest[0][1] - outl).is_zero() and z3.Not(covered(P.z(xidx))),
                "a data point not listed by any consensus node is labelled with the outlier node (clone id -1)", kind="post")
        dsl.cover(I, "clabels.fill-in")
    else:
        P.check("clabels.covered-point-keeps-its-node", covered(P.z(xidx)), "a data point listed by a consensus node keeps that label", kind="post")
        dsl.cover(I, "clabels.no-fill-in")
    if k3 is None:
        P.check("clabels.no-node-no-edge", not log["edges"], "without consensus nodes nothing is attached", kind="post")
        dsl.cover(I, "clabels.no-nodes")
        nd3 = npred = None
    else:
        nd3 = node_id(k3)
        npred = alg.raw_app("n_pred", nd3, sort="Int")
    if k3 is None:
        pass
    elif log["edges"]:
        g, a, b = log["edges"][0]
        P.check("clabels.top-level-node-under-root", len(log["edges"]) == 1 and g.is_copy and isinstance(a, Num) and (a - rootn).is_zero() and (I.to_num(b) - nd3).is_zero() and P.z(npred) == 0,
                "a consensus node without a parent is attached to the root, on a copy of the graph", kind="post")
        dsl.cover(I, "clabels.attach")
    else:
        P.check("clabels.nested-node-not-reattached", P.z(npred) >= 1, "a consensus node with a parent is left where it is", kind="post")
        dsl.cover(I, "clabels.no-attach")
    ok = len(log["fdn"]) == 1 and log["fdn"][0][0] is data and isinstance(log["fdn"][0][1], dict) and log["fdn"][0][1].get("labels") is labels \
        and isinstance(log["fdn"][0][1].get("graph"), tuple) and log["fdn"][0][1]["graph"][1].is_copy
    P.check("clabels.tree-built-from-these-labels", ok and res is built and log["update"] == 1, "the Tree is built from the data, the rooted copy of the graph and exactly these labels, and updated", kind="post")


CLABEL_COVERS = ["labels.ran", "clabels.fill-in", "clabels.no-fill-in", "clabels.attach", "clabels.no-attach", "clabels.no-nodes"]




# ------------------------------------------------------------------------------------------------------------ get_clades (tree/utils.py)


TU = "phyclone.tree.utils"


class SetExpr(Model):
    """a set being built, kept as the list of its union components"""

    def __init__(self):
        self.parts = []
        self.adds = []

    def m_add(self, I, x):
        self.adds.append(x)


def h_clades_rec(I, fi):
    """_clades(clades, node, tree): the clade of a node is the set of its own data indices united with the clades of its children
    (by induction on the recursive calls); it is added to `clades` as a frozenset and returned."""
    P = I.P
    node = alg.sym("node", "Int")
    cur = SetExpr()
    made = []
    I.registry.globals_override["set"] = lambda I_, *a: (made.append(1), cur)[1]
    I.registry.globals_override["frozenset"] = lambda I_, x=(): ("frozen", x, tuple(x.parts) if isinstance(x, SetExpr) else None)
    collected = SetExpr()

    class DataSeq(Model):
        def __init__(self, nd):
            self.nd = nd

        def set_comprehension(self, I_, cnode, gen, fr2):
            # {dp.idx for dp in tree.get_data(node)}: the same collection as the add-loop builds
            from pyvc.interp import Frame
            e = Opaque("a-data-point")
            e.a_idx = lambda I2: ("idx-of", e)
            sub = Frame(fr2.module, fr2.func, fr2.cls)
            sub.vars = dict(fr2.vars)
            I_.assign_target(gen.target, e, sub)
            ok = not gen.ifs and I_.eval(cnode.elt, sub) == ("idx-of", e)
            I_.P.check("clades.own-indices", ok, "every data point of the node contributes exactly its index", kind="post")
            made.append(1)
            cur.parts.append(("own-indices", self.nd.key()))
            return cur

        def for_loop(self, I_, lnode, fr):
            e = Opaque("a-data-point")
            e.a_idx = lambda I2: ("idx-of", e)
            n0 = len(cur.adds)
            I_.assign_target(lnode.target, e, fr)
            I_.exec_block(lnode.body, fr)
            ok = cur.adds[n0:] == [("idx-of", e)]
            I_.P.check("clades.own-indices", ok, "every data point of the node contributes exactly its index", kind="post")
            del cur.adds[n0:]
            cur.parts.append(("own-indices", self.nd.key()))

    class CladeOf(Model):
        """result of the recursive call for a child (induction hypothesis: its clade)"""

        def __init__(self, child):
            self.child = child

        def for_loop(self, I_, lnode, fr):
            e = Opaque("a-member")
            n0 = len(cur.adds)
            I_.assign_target(lnode.target, e, fr)
            I_.exec_block(lnode.body, fr)
            ok = cur.adds[n0:] == [e]
            I_.P.check("clades.child-members", ok, "every member of a child's clade is added", kind="post")
            del cur.adds[n0:]
            st["inner"] = ("clade-of", self.child.key())

    st = {}
    rec = []

    def rec_call(I_, a, k, n):
        rec.append(a)
        return CladeOf(I_.to_num(a[1]))

    I.registry.call_contracts[fi.qualname] = rec_call

    class T(Model):
        def m_get_data(self, I_, nd):
            return DataSeq(I_.to_num(nd))

        def m_get_children(self, I_, nd):
            return Children(I_.to_num(nd))

    class Children(Model):
        def __init__(self, nd):
            self.nd = nd

        def for_loop(self, I_, lnode, fr):
            c = alg.sym(I_.P.fresh_name("child"), "Int")
            n_rec = len(rec)
            I_.assign_target(lnode.target, c, fr)
            st.pop("inner", None)
            I_.exec_block(lnode.body, fr)
            ok = len(rec) == n_rec + 1 and rec[-1][0] is collected and (I_.to_num(rec[-1][1]) - c).is_zero() and rec[-1][2] is tree and st.get("inner") == ("clade-of", c.key())
            I_.P.check("clades.children", ok, "for every child the recursion runs on (same collection, that child, same tree) and the whole clade it returns is merged in", kind="post")
            cur.parts.append(("clades-of-children", self.nd.key()))

    tree = T()
    out = I.call_function(fi, [collected, node, tree], {}, force_inline=True)
    dsl.cover(I, "clades.rec")
    want = [("own-indices", node.key()), ("clades-of-children", node.key())]
    P.check("clades.value", out is cur and cur.parts == want and not cur.adds and len(made) == 1, "clade(node) = own data indices U clades of the children, and is what is returned", kind="post")
    P.check("clades.recorded", collected.adds == [("frozen", cur, tuple(want))], "exactly this clade (frozen after it is complete) is added to the collection", kind="post")


def h_get_clades(I, fi):
    P = I.P
    res = SetExpr()
    I.registry.globals_override["set"] = lambda I_, *a: res
    I.registry.globals_override["frozenset"] = lambda I_, x=(): ("frozen", x)
    calls = []
    I.registry.call_contracts[TU + "._clades"] = lambda I_, a, k, n: calls.append(a)
    n = alg.sym("n_roots", "Int")
    P.assume(P.z(n) >= 0)

    class T(Model):
        def a_roots(self, I_):
            return SymSeq("roots", n, lambda i: alg.raw_app("root", I_.to_num(i), sort="Int"))

    tree = T()
    I.registry.generic_loops.add(fi.qualname)
    out = I.call_function(fi, [tree], {}, force_inline=True)
    gens = P.ghost.get("generic_indices", [])
    if gens:
        dsl.cover(I, "get_clades.some-root")
        P.check("get_clades.every-top-level-clone", len(gens) == 1 and len(calls) == 1 and calls[0][0] is res and (I.to_num(calls[0][1]) - alg.raw_app("root", gens[0], sort="Int")).is_zero() and calls[0][2] is tree,
                "the clades of every top-level clone's subtree are collected into one set", kind="post")
    else:
        dsl.cover(I, "get_clades.no-root")
        P.check("get_clades.empty-tree", not calls and not P.feasible(P.z(n) != 0), "a tree without clones has no clade", kind="post")
    P.check("get_clades.returns-frozen-collection", out == ("frozen", res), "the collection is returned as a frozenset", kind="post")


# ------------------------------------------------------------------------------------------------------------ relabel


def h_relabel_rec(I, fi):
    """_relabel(node, transformed, original): the node stays keyed by its clade and carries own = clade minus every member of every child
    clade (frozen after all removals); every child is processed recursively and attached under the node; the node is returned.
    requires (M-LAMINAR + smallest-superset nesting): child clades are pairwise disjoint subsets of the node's clade, so `remove` finds its element."""
    P = I.P
    clade = Opaque("clade")
    cur = SetExpr()
    cur.removed = []
    cur.m_remove = lambda I_, x: cur.removed.append(x)
    I.registry.globals_override["set"] = lambda I_, x=(): (cur.parts.append(("copy-of", x)), cur)[1]
    I.registry.globals_override["frozenset"] = lambda I_, x=(): ("frozen", x, tuple(x.parts) if isinstance(x, SetExpr) else None)
    log = []
    st = {"pass": 0}

    class ChildClade(Opaque):
        def for_loop(self, I_, lnode, fr):
            e = Opaque("member")
            n0 = len(cur.removed)
            I_.assign_target(lnode.target, e, fr)
            I_.exec_block(lnode.body, fr)
            I_.P.check("relabel.removes-every-member-of-the-child", cur.removed[n0:] == [e], "every member of a child clade is removed from the node's own set, once", kind="post")
            del cur.removed[n0:]
            st["inner"] = self

    class Edges(Model):
        def for_loop(self, I_, lnode, fr):
            st["pass"] += 1
            c = ChildClade("child-clade-%d" % st["pass"])
            n0 = len(log)
            st.pop("inner", None)
            I_.assign_target(lnode.target, (clade, c), fr)
            I_.exec_block(lnode.body, fr)
            if st["pass"] == 1:
                I_.P.check("relabel.first-pass-subtracts", st.get("inner") is c and len(log) == n0, "first pass over the children: only subtraction", kind="post")
                cur.parts.append(("minus-all-child-clades",))
            else:
                new = log[n0:]
                ok = len(new) == 2 and new[0][0] == "rec" and new[0][1] is c and new[0][2] is transformed and new[0][3] is original and new[1] == ("edge", clade, ("relabelled", c))
                I_.P.check("relabel.second-pass-recurses-and-attaches", ok, "second pass: every child is relabelled recursively and attached under the node", kind="post")

    class Orig(Model):
        def m_out_edges(self, I_, nd):
            if nd is not clade:
                raise Unsupported("out_edges of another node")
            return Edges()

    class Out(Model):
        def m_add_node(self, I_, nd, **attrs):
            log.append(("node", nd, attrs, st["pass"]))

        def m_add_edge(self, I_, a, b):
            log.append(("edge", a, b))

    transformed, original = Out(), Orig()

    def rec(I_, a, k, n):
        log.append(("rec", a[0], a[1], a[2]))
        return ("relabelled", a[0])

    I.registry.call_contracts[fi.qualname] = rec
    out = I.call_function(fi, [clade, transformed, original], {}, force_inline=True)
    dsl.cover(I, "relabel.rec")
    nodes = [e for e in log if e[0] == "node"]
    want = (("copy-of", clade), ("minus-all-child-clades",))
    ok = len(nodes) == 1 and nodes[0][1] is clade and set(nodes[0][2]) == {"own"} and nodes[0][2]["own"] == ("frozen", cur, want) and nodes[0][3] == 1
    P.check("relabel.node-keyed-by-its-clade-with-own-set", ok, "the node is added under its clade with own = clade minus the members of all child clades (frozen after the subtraction, before the recursion)", kind="post")
    P.check("relabel.returns-the-node", out is clade and st["pass"] == 2, "the clade is returned (it is the key the parent attaches)", kind="post")


def h_clean_tree(I, fi):
    """clean_tree(tree, data): clones are renumbered by their position in a depth-first pre-order (an injective renaming applied by
    networkx.relabel_nodes), every new node carries idxs = sorted(own set of the node it came from) and names = the names of those data points."""
    P = I.P
    n = alg.sym("n_nodes", "Int")
    P.assume(P.z(n) >= 0)
    with_data = P.decide(2) == 1
    dsl.cover(I, "clean.with-data" if with_data else "clean.without-data")
    log = {"relabel": [], "attrs": []}
    objs = {}

    def old(k):
        return objs.setdefault(I.to_num(k).key(), Opaque("old-node[%s]" % I.to_num(k).key()))

    class RecDict(Model):
        def __init__(self, name):
            self.name, self.stores = name, []

        def setitem(self, I_, k, v):
            self.stores.append((k, v))

        def getitem(self, I_, k):
            for a, b in reversed(self.stores):
                if a is k or (isinstance(a, Num) and isinstance(k, Num) and (a - k).is_zero()):
                    return b
            return ("value", self.name, k)

        def m_items(self, I_):
            # (old node, new number) pairs of the first loop: pair j is (preorder[j], j)
            return SymSeq("items(%s)" % self.name, n, lambda j: (old(j), _ni(I_.to_num(j))))

        def iterate_keys(self, I_):
            return SymSeq("keys(%s)" % self.name, n, lambda j: _ni(I_.to_num(j)))

        def for_loop(self, I_, lnode, fr):
            return self.iterate_keys(I_).for_loop(I_, lnode, fr)

    def _ni(x):
        from pyvc.builtins_model import _num_or_int
        return _num_or_int(x)

    node_map, idx_map = RecDict("node_map"), RecDict("idx_map")
    order = [node_map, idx_map]
    I.registry.empty_dict_model = lambda I_: order.pop(0) if order else None

    class NodesView(Model):
        def getitem(self, I_, nd):
            return {"own": ("own-of", nd)}

    class G(Model):
        def a_nodes(self, I_):
            return NodesView()

    g = G()

    class Nx(Model):
        def m_dfs_preorder_nodes(self, I_, t):
            return SymSeq("preorder", n, lambda j: old(j))

        def m_relabel_nodes(self, I_, t, mapping):
            log["relabel"].append((t, mapping))
            return ("relabelled-graph",)

        def m_set_node_attributes(self, I_, t, name=None, values=None):
            log["attrs"].append((t, name, values))

    I.registry.globals_override["nx"] = Nx()
    I.registry.globals_override["sorted"] = lambda I_, x, **k: ("sorted", x)
    names = RecDict("name_map")

    class NameLists(Model):
        def getitem(self, I_, k):
            return NameList(k)

    class NameList(Model):
        def __init__(self, k):
            self.k = k

        def m_append(self, I_, x):
            names.stores.append((self.k, x))

    I.registry.globals_override["defaultdict"] = lambda I_, f=None: NameLists()

    class DP(Model):
        def __init__(self, i):
            self.i = i

        def a_name(self, I_):
            return ("name-of", self.i if not isinstance(self.i, Num) else self.i.key())

    class Data(Model):
        def getitem(self, I_, i):
            return DP(i)

    # idx lists: sorted(own) of the generic node is iterated in the names loop
    class SortedOwn(tuple):
        pass

    I.registry.generic_loops.add(fi.qualname)
    I.registry.generic_store_ok = {"node_map", "idx_map"}
    out = I.call_function(fi, [g], {"data": Data() if with_data else None}, force_inline=True)
    gens = P.ghost.get("generic_indices", [])
    P.check("clean.returns-the-relabelled-graph", out == ("relabelled-graph",), "the renumbered graph is returned", kind="post")
    P.check("clean.relabel-with-the-node-map", len(log["relabel"]) == 1 and log["relabel"][0][0] is g and log["relabel"][0][1] is node_map, "networkx relabels the input graph with the node map", kind="post")
    if not gens:
        dsl.cover(I, "clean.empty")
        return
    dsl.cover(I, "clean.some-node")
    j1 = gens[0]
    s0 = node_map.stores[0] if node_map.stores else None
    P.check("clean.node-map-is-the-preorder-position", s0 is not None and len(node_map.stores) == 1 and s0[0] is old(j1) and (I.to_num(s0[1]) - j1).is_zero(),
            "the j-th node of the pre-order gets number j (distinct nodes get distinct numbers)", kind="post")
    if len(gens) >= 2 and idx_map.stores:
        j2 = gens[1]
        s1 = idx_map.stores[0]
        P.check("clean.idxs-are-the-sorted-own-set", len(idx_map.stores) == 1 and (I.to_num(s1[0]) - j2).is_zero() and s1[1] == ("sorted", ("own-of", old(j2))),
                "new node j carries the sorted own set of the node it came from", kind="post")
    else:
        P.check("clean.idxs-are-the-sorted-own-set", False, "new node j carries the sorted own set of the node it came from", kind="post")
    a0 = log["attrs"][0] if log["attrs"] else None
    P.check("clean.idxs-attribute", a0 is not None and a0[0] == ("relabelled-graph",) and a0[1] == "idxs" and a0[2] is idx_map, "the idxs attribute of the new graph is that map", kind="post")
    if with_data:
        a1 = log["attrs"][1] if len(log["attrs"]) > 1 else None
        P.check("clean.names-attribute", a1 is not None and a1[0] == ("relabelled-graph",) and a1[1] == "names" and isinstance(a1[2], NameLists) and len(log["attrs"]) == 2, "with data the names attribute is set from the name map", kind="post")
    else:
        P.check("clean.no-names-without-data", len(log["attrs"]) == 1, "without data no names are set", kind="post")


# ------------------------------------------------------------------------------------------------------------ from_dict_nx


def h_from_dict_nx(I, fi):
    """from_dict_nx(data, {"graph": dict of dicts, "labels": idx -> node}): a new Tree on the data's grid; one clone per key of the graph other than the
    root; one edge parent -> child per entry, between the indices registered for those names; every labelled data point is added (in build mode, no
    path update) to the node its label names, looked up by idx; the recursion values are computed once at the end."""
    P = I.P
    nk, nl = alg.sym("n_graph_keys", "Int"), alg.sym("n_labels", "Int")
    P.assume(z3.And(P.z(nk) >= 1, P.z(nl) >= 0))
    log = []

    class Idx(Model):
        def getitem(self, I_, name):
            return ("index-of", name if isinstance(name, str) else I_.to_num(name).key())

    class GraphRec(Model):
        def m_add_edge(self, I_, a, b, w):
            log.append(("edge", a, b, w))

    class TreeRec(Model):
        py_classes = ("Tree",)

        def __init__(self, grid):
            self.grid = grid

        def a_root_node_name(self, I_):
            return "root"

        def m__add_node(self, I_, nd):
            log.append(("add-node", nd))

        def a__node_indices(self, I_):
            return Idx()

        def a__graph(self, I_):
            return GraphRec()

        def m__internal_add_data_point_to_node(self, I_, build, dp, nd):
            log.append(("add-point", build, dp, nd))

        def m_update(self, I_):
            log.append(("update",))

    made = []
    I.registry.class_models["Tree"] = lambda I_, grid=None: (made.append(TreeRec(grid)), made[-1])[1]

    class DP(Model):
        def __init__(self, i):
            self.i = i

        def a_idx(self, I_):
            return alg.raw_app("idx_of", self.i, sort="Int")

        def a_grid_size(self, I_):
            return ("grid-of-data",)

    data = SymSeq("data", alg.sym("n_data", "Int"), lambda i: DP(I.to_num(i)))
    P.assume(P.z(alg.sym("n_data", "Int")) >= 1)
    zipped = []

    class ByIdx(Model):
        def getitem(self, I_, idx):
            return ("data-point-with-idx", I_.to_num(idx).key())

    I.registry.globals_override["zip"] = lambda I_, a, b: (zipped.append((a, b)), ("zip",))[1]
    I.registry.globals_override["dict"] = lambda I_, z=None: ByIdx()
    kind = {}

    class Children(Model):
        def __init__(self, p):
            self.p = p

        def m_keys(self, I_):
            c = alg.raw_app("n_children_of", I_.to_num(self.p) if not isinstance(self.p, str) else Num.const(-7), sort="Int")
            I_.P.assume(I_.P.z(c) >= 0)
            return SymSeq("children", c, lambda j: alg.raw_app("child_name", I_.to_num(j), sort="Int"))

    class GraphDict(Model):
        def m_keys(self, I_):
            # the keys: clone names, and the dummy root
            return SymSeq("graph.keys", nk - 1, lambda j: alg.raw_app("key_name", I_.to_num(j), sort="Int"), tail=["root"])

        def m_items(self, I_):
            return SymSeq("graph.items", nk - 1, lambda j: (alg.raw_app("key_name", I_.to_num(j), sort="Int"), Children(alg.raw_app("key_name", I_.to_num(j), sort="Int"))), tail=[("root", Children("root"))])

    class Labels(Model):
        def m_items(self, I_):
            return SymSeq("labels.items", nl, lambda j: (alg.raw_app("lab_idx", I_.to_num(j), sort="Int"), alg.raw_app("lab_node", I_.to_num(j), sort="Int")))

    td = {"graph": GraphDict(), "labels": Labels()}
    I.registry.generic_loops.add(fi.qualname)
    out = I.call_function(fi, [data, td], {}, force_inline=True)
    dsl.cover(I, "from_dict_nx")
    P.check("nx-tree.new-tree-on-the-data-grid", len(made) == 1 and made[0].grid == ("grid-of-data",) and out is made[0], "a new Tree on the grid of the data is built and returned", kind="post")
    P.check("nx-tree.lookup-by-idx", len(zipped) == 1 and zipped[0][1] is data and isinstance(zipped[0][0], SymSeq), "data points are looked up by their idx", kind="post")
    P.check("nx-tree.update-last", log and log[-1] == ("update",) and [e for e in log if e[0] == "update"] == [("update",)], "the recursion values are computed once, after everything is in place", kind="post")
    adds = [e for e in log if e[0] == "add-node"]
    P.check("nx-tree.root-is-not-added-again", all(not isinstance(e[1], str) for e in adds), "the dummy root (already in the new tree) is skipped", kind="post")
    gens = P.ghost.get("generic_indices", [])
    for e in adds:
        P.check("nx-tree.one-clone-per-graph-key", len(adds) == 1 and isinstance(e[1], Num) and any((e[1] - alg.raw_app("key_name", g, sort="Int")).is_zero() for g in gens), "every other key of the graph becomes a clone of that name", kind="post")
    edges = [e for e in log if e[0] == "edge"]
    for e in edges:
        P.check("nx-tree.edges-between-registered-indices", len(edges) == 1 and e[3] is None and isinstance(e[1], tuple) and e[1][0] == "index-of" and isinstance(e[2], tuple) and e[2][0] == "index-of"
                and any(e[2][1] == alg.raw_app("child_name", g, sort="Int").key() for g in gens), "every (parent, child) entry becomes one edge between the indices registered for those names", kind="post")
    pts = [e for e in log if e[0] == "add-point"]
    for e in pts:
        j = [g for g in gens if e[2] == ("data-point-with-idx", alg.raw_app("lab_idx", g, sort="Int").key())]
        P.check("nx-tree.labelled-points-placed", len(pts) == 1 and e[1] is True and len(j) == 1 and (I.to_num(e[3]) - alg.raw_app("lab_node", j[0], sort="Int")).is_zero(),
                "every label (idx -> node) adds the data point with that idx to that node, in build mode", kind="post")
    if pts:
        dsl.cover(I, "from_dict_nx.labelled")
    if edges:
        dsl.cover(I, "from_dict_nx.edge")
    if adds:
        dsl.cover(I, "from_dict_nx.clone")


def verify_all(ctx, repo, prop="C16"):
    dsl.verify(ctx, repo, dsl.Registry(), prop, CONS + ".key_above_threshold", h_key_above_threshold, expect_covers=["threshold.generic-item"])
    dsl.verify(ctx, repo, dsl.Registry(), prop, CONS + ".clade_probabilities", h_clade_probabilities, expect_covers=SUPPORT_COVERS)
    dsl.verify(ctx, repo, dsl.Registry(), prop, CONS + ".find_smallest_superset", h_smallest_superset, expect_covers=SUPERSET_COVERS)
    dsl.verify(ctx, repo, dsl.Registry(), prop, CONS + ".consensus", h_consensus, expect_covers=["consensus.generic-clade"])
    dsl.verify(ctx, repo, dsl.Registry(), prop, CONS + ".get_consensus_tree", h_pipeline, expect_covers=["pipeline.ran"])
    dsl.verify(ctx, repo, dsl.Registry(), prop, PT + ".write_consensus_results", h_consensus_command, expect_covers=["consensus-command.weighted", "consensus-command.counts"])
    dsl.verify(ctx, repo, dsl.Registry(), prop, "phyclone.utils.math.exp_normalize", h_exp_normalize, expect_covers=["exp_normalize"])
    dsl.verify(ctx, repo, dsl.Registry(), prop, PT + ".get_tree_from_consensus_graph", h_consensus_labels, expect_covers=CLABEL_COVERS)
    dsl.verify(ctx, repo, dsl.Registry(), prop, PT + ".from_dict_nx", h_from_dict_nx, expect_covers=["from_dict_nx", "from_dict_nx.labelled", "from_dict_nx.edge", "from_dict_nx.clone"])
    dsl.verify(ctx, repo, dsl.Registry(), prop, TU + "._clades", h_clades_rec, expect_covers=["clades.rec"])
    dsl.verify(ctx, repo, dsl.Registry(), prop, CONS + "._relabel", h_relabel_rec, expect_covers=["relabel.rec"])
    dsl.verify(ctx, repo, dsl.Registry(), prop, CONS + ".relabel", h_relabel, expect_covers=["relabel", "relabel.some-root", "relabel.no-root"])
    dsl.verify(ctx, repo, dsl.Registry(), prop, CONS + ".clean_tree", h_clean_tree, expect_covers=["clean.with-data", "clean.without-data", "clean.empty", "clean.some-node"])
    dsl.verify(ctx, repo, dsl.Registry(), prop, TU + ".get_clades", h_get_clades, expect_covers=["get_clades.some-root", "get_clades.no-root"])


